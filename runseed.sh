#!/bin/bash
# usage: runseed.sh <property> [check-property ...]
# Applies /verif/seeded/<property>/patch.diff to /repo, runs the checks,
# and undoes the change straight afterwards.
set -u
id=$1; shift
props=${@:-$id}
git -C /repo apply /verif/seeded/$id/patch.diff || { echo "patch does not apply"; exit 3; }
rc=0
for p in $props; do
  GOVC_BRIEF=${GOVC_BRIEF:-} /verif/bin/govc check -prop $p -no-evidence -replays /tmp/seedreplays 2>&1 | grep -v WARNING | cut -c1-400
  r=${PIPESTATUS[0]}; [ "$r" -ne 0 ] && rc=$r
done
git -C /repo checkout -- . 
rm -rf /tmp/seedreplays
exit $rc
