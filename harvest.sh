#!/bin/bash
# usage: harvest.sh <id> <pkgdir> <run-regexp> [suffix]
# Takes a sub-agent's seeded change from /tmp/wt-<id>/_seed, stores it under
# /verif/seeded/<id><suffix>/, confirms it in a scratch worktree (seedcheck.sh,
# full suite) and removes the agent's worktree.
set -u
id=$1; pkg=$2; run=$3; suf=${4:-}
dst=/verif/seeded/$id$suf
mkdir -p $dst
cp /tmp/wt-$id/_seed/patch.diff /tmp/wt-$id/_seed/seed_demo_test.go /tmp/wt-$id/_seed/NOTES.md $dst/ || exit 3
git -C /repo worktree remove --force /tmp/wt-$id
/verif/seedcheck.sh $dst $pkg/seed_demo_test.go "$run" ./$pkg full > $dst/confirm.log 2>&1
tail -1 $dst/confirm.log
