#!/bin/bash
# usage: selftest.sh <property-id>
# Must-fail corpus for the checker itself (thorough tier): every stored
# seeded change of this property (/verif/seeded/<id>*/patch.diff) is applied
# to a scratch COPY of /repo's current working tree (outside /repo and /verif,
# removed afterwards) and the property's check is run on the copy; the check
# has to report at least one violated obligation. Results go to stdout as
# JSON lines {"seed":..,"status":"detected|MISSED|skipped","obligations":[..]}.
# A missed seed is a weakness of the contracts, not a violation of the
# property by /repo: it is recorded in the evidence, the exit code stays 0.
export GOFLAGS=-mod=mod GOPROXY=off GOSUMDB=off GOTOOLCHAIN=local
id=$1
for d in /verif/seeded/${id} /verif/seeded/${id}[a-z]; do
  [ -f "$d/patch.diff" ] || continue
  seed=$(basename "$d")
  tmp=$(mktemp -d /tmp/govc-selftest.XXXXXX)
  cp -a /repo/. "$tmp/" 2>/dev/null
  if ! git -C "$tmp" apply "$d/patch.diff" 2>/dev/null; then
    echo "{\"seed\":\"$seed\",\"status\":\"skipped\",\"why\":\"patch does not apply to the current tree\"}"
    rm -rf "$tmp"; continue
  fi
  out=$(/verif/bin/govc check -prop "$id" -repo "$tmp" -no-evidence -tier quick -replays "$tmp/_replays" 2>&1 | grep -v '^WARNING')
  rm -rf "$tmp"
  obs=$(echo "$out" | grep '^VIOLATION' | sed 's/.*obligation=\([^ ]*\).*/\1/' | head -5 | python3 -c "import sys,json;print(json.dumps([l.strip() for l in sys.stdin if l.strip()]))")
  if echo "$out" | grep -q '^VIOLATION'; then st=detected; else st=MISSED; fi
  echo "{\"seed\":\"$seed\",\"status\":\"$st\",\"obligations\":$obs}"
done
