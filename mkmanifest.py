import json,sys
props={json.loads(l)['id']:json.loads(l) for l in open('/verif/properties.jsonl')}
claims=json.load(open('/verif/claims.json'))
checks=[]
for pid,c in sorted(claims.items()):
    checks.append({"property_id":pid,"quick_cmd":f"./check {pid} --tier quick","thorough_cmd":f"./check {pid} --tier thorough",
      "evidence_file":f"/verif/evidence/{pid}.json","replay_cmd_template":f"./check {pid} --replay {{path}}","engine":"govc",
      "level_claimed":{"category":"proof","text":c["text"],"design_ref":c.get("design_ref","DESIGN.md §4 "+pid)},
      "level_note":c["note"],"technique":c.get("technique","contract-based deductive verification: weakest-precondition VCs generated from go/ssa of the real code and //@ contracts, discharged by z3/cvc5")})
na=[]
reasons=json.load(open('/verif/not_applicable.json'))
for pid in sorted(props):
    if pid not in claims:
        na.append({"property_id":pid,"reason":reasons.get(pid,"kernel contracts not completed yet (engine under construction); no other technique is substituted")})
hooks=json.load(open('/verif/hooks.json'))
m={"version":1,"setup_cmd":"cd /verif && ./setup.sh",
 "hooks":{"guard":"verif","enable":"go build -tags verif (adds only comment-only verif_contracts*.go files)","baseline_off_cmd":"cd /verif && ./baseline_off.sh","source_commits":hooks,"add_only":True},
 "engines":[{"name":"govc","path":"/verif/govc","serves_properties":sorted(claims),"kind_free_text":"verification-condition generator over go/ssa for the real /repo code; contracts in //@ comments in build-tag-guarded verif_contracts*.go files; obligations discharged by z3 4.8.12 / z3 5.1.0 / cvc5 1.0.3"}],
 "checks":checks,"notes":"see DESIGN.md","not_applicable":na}
json.dump(m,open('/verif/MANIFEST.json','w'),indent=1)
print(len(checks),'claimed',len(na),'n/a')
