#!/bin/bash
# usage: mutest.sh <patch-file> <property> [more properties...]
# Applies a patch to a scratch copy of /repo (outside /repo and /verif), runs
# the property's check on the copy without touching evidence, removes the copy.
set -u
patch=$1; shift
scr=$(mktemp -d /tmp/mut.XXXXXX)
rsync -a --exclude .git /repo/ "$scr/"
if ! (cd "$scr" && patch -p1 -s < "$patch"); then echo "PATCH-FAILED $patch"; rm -rf "$scr"; exit 3; fi
rc=0
for p in "$@"; do
  /verif/bin/govc check -repo "$scr" -prop "$p" -no-evidence -replays "$scr/.replays" 2>&1 | grep -v WARNING | sed "s#$scr#<scratch>#g"
  r=${PIPESTATUS[0]}; [ "$r" -ne 0 ] && rc=$r
done
rm -rf "$scr"
exit $rc
