#!/bin/bash
# usage: runseed_copy.sh <seed-id> [check-property ...]
# Like runseed.sh, but applies the seeded change to a scratch COPY of /repo's
# current tree (outside /repo and /verif, removed afterwards) and runs the
# checks on the copy: /repo itself is not touched.
set -u
export GOFLAGS=-mod=mod GOPROXY=off GOSUMDB=off GOTOOLCHAIN=local
id=$1; shift
props=${@:-$id}
tmp=$(mktemp -d /tmp/govc-seedcopy.XXXXXX)
cp -a /repo/. "$tmp/"
git -C "$tmp" apply /verif/seeded/$id/patch.diff || { echo "patch does not apply"; rm -rf "$tmp"; exit 3; }
rc=0
for p in $props; do
  GOVC_BRIEF=${GOVC_BRIEF:-} /verif/bin/govc check -prop $p -repo "$tmp" -no-evidence -replays "$tmp/_replays" 2>&1 | grep -v WARNING | cut -c1-400
  r=${PIPESTATUS[0]}; [ "$r" -ne 0 ] && rc=$r
done
rm -rf "$tmp"
exit $rc
