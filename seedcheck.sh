#!/bin/bash
# usage: seedcheck.sh <seed-dir> <demo-relative-path> <go test -run regexp> <pkg> [full]
# Confirms a seeded change in a scratch worktree of /repo (outside /repo and
# /verif): it compiles, the demonstration fails with it and passes without it,
# and (with "full") the existing tests of all packages still pass with it.
set -u
export GOFLAGS=-mod=mod GOPROXY=off GOSUMDB=off GOTOOLCHAIN=local
seed=$1; demo=$2; run=$3; pkg=$4; full=${5:-}
wt=$(mktemp -d /tmp/seedwt.XXXXXX); rmdir "$wt"
git -C /repo worktree add -q --detach "$wt" HEAD || exit 3
cleanup() { git -C /repo worktree remove --force "$wt"; }
trap cleanup EXIT
cp /repo/transport/example.crt /repo/transport/example.key "$wt/transport/" 2>/dev/null
cp "$seed/$(basename "$demo")" "$wt/$demo" || exit 3
cd "$wt"
echo "== demo on unmodified tree (must pass)"
go test -vet=off -count=1 -timeout 120s -run "$run" "$pkg" 2>&1 | grep -v WARNING | tail -3
r0=${PIPESTATUS[0]}
git apply "$seed/patch.diff" || { echo "PATCH DOES NOT APPLY"; exit 3; }
echo "== build with change"
go build ./... 2>&1 | grep -v WARNING; rb=${PIPESTATUS[0]}
echo "== demo with change (must fail)"
go test -vet=off -count=1 -timeout 120s -run "$run" "$pkg" 2>&1 | grep -v WARNING | tail -5
r1=${PIPESTATUS[0]}
rs=0
if [ -n "$full" ]; then
  rm -f "$wt/$demo"
  echo "== existing suite with change"
  go test -vet=off -count=1 -timeout 20m ./broker/... ./client/future/... ./packet/... ./session/... ./topic/... ./transport/flow/... 2>&1 | grep -v WARNING | tail -12
  rs=${PIPESTATUS[0]}
  go test -vet=off -count=1 -timeout 20m -run 'Test' ./client/ 2>&1 | grep -v WARNING | tail -3
  [ ${PIPESTATUS[0]} -ne 0 ] && rs=1
fi
echo "RESULT unmodified=$r0 build=$rb withchange=$r1 suite=$rs"
