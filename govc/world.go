package main

import (
	"fmt"
	"go/token"
	"go/types"
	"math/big"
	"os"
	"path/filepath"
	"sort"
	"strings"

	"golang.org/x/tools/go/packages"
	"golang.org/x/tools/go/ssa"
	"golang.org/x/tools/go/ssa/ssautil"
)

const modPath = "github.com/256dpi/gomqtt"

type World struct {
	functypePkgPath map[*FuncContract]string
	repo      string
	fset      *token.FileSet
	prog      *ssa.Program
	pkgs      map[string]*ssa.Package // by import path
	tpkgs     map[string]*types.Package
	contracts map[string]*FuncContract // "pkgpath\x00key" (repo) / full name (trusted)
	cfiles    map[string]*ContractFile // by pkg path
	specs     map[string]*SpecFunc     // by name (global namespace)
	lemmas    map[string]*Lemma
	ghosts    map[string]GhostVar
	guarded   map[string]string // "pkgpath.Type.field" -> "pkgpath.Type.mutexfield"
	immutable map[string]bool
	trustedFiles []string
	compRange map[string][2]*big.Int
	allFuncs  map[*ssa.Function]bool
	srcHash   string
	customSorts map[string]string
	specPkg   map[string]*types.Package
	compRefLike map[string]bool // field components holding references (pointers, maps, channels)
	functypes map[string]*FuncContract // "pkg.Name" or type string
	sites     map[string]*ContractFile
}

func shortPkg(path string) string {
	if i := strings.LastIndex(path, "/"); i >= 0 {
		return path[i+1:]
	}
	return path
}

func qualifier(p *types.Package) string {
	if p == nil {
		return ""
	}
	if strings.HasPrefix(p.Path(), modPath) {
		return shortPkg(p.Path())
	}
	return p.Path()
}

func typeKey(t types.Type) string { return types.TypeString(t, qualifier) }

func loadWorld(repo string, patterns []string, trustedDir string) (*World, error) {
	w := &World{repo: repo, pkgs: map[string]*ssa.Package{}, tpkgs: map[string]*types.Package{},
		contracts: map[string]*FuncContract{}, cfiles: map[string]*ContractFile{}, specs: map[string]*SpecFunc{},
		lemmas: map[string]*Lemma{}, ghosts: map[string]GhostVar{}, guarded: map[string]string{}, immutable: map[string]bool{},
		compRange: map[string][2]*big.Int{}, customSorts: map[string]string{}, specPkg: map[string]*types.Package{}, functypes: map[string]*FuncContract{}, compRefLike: map[string]bool{}}
	w.customSorts["Lv"] = "Lv" // lists of strings (topic levels)
	cfg := &packages.Config{
		Mode:       packages.LoadAllSyntax,
		Dir:        repo,
		BuildFlags: []string{"-tags", "verif"},
		Env:        append(os.Environ(), "GOFLAGS=-mod=mod", "GOPROXY=off", "GOSUMDB=off", "GOTOOLCHAIN=local"),
	}
	initial, err := packages.Load(cfg, patterns...)
	if err != nil {
		return nil, err
	}
	if packages.PrintErrors(initial) > 0 {
		return nil, fmt.Errorf("packages contain errors")
	}
	prog, spkgs := ssautil.AllPackages(initial, ssa.GlobalDebug|ssa.BareInits)
	prog.Build()
	w.prog = prog
	w.fset = prog.Fset
	_ = spkgs
	for _, p := range prog.AllPackages() {
		w.pkgs[p.Pkg.Path()] = p
		w.tpkgs[p.Pkg.Path()] = p.Pkg
	}
	w.allFuncs = ssautil.AllFunctions(prog)
	// contract files
	packages.Visit(initial, nil, func(p *packages.Package) {
		if !strings.HasPrefix(p.PkgPath, modPath) {
			return
		}
		for _, f := range p.GoFiles {
			if strings.HasPrefix(filepath.Base(f), "verif_contracts") {
				cf, e := parseContractFile(f, p.PkgPath, true)
				if e != nil {
					err = e
					return
				}
				w.addContractFile(cf)
			}
		}
	})
	if err != nil {
		return nil, err
	}
	tf, _ := filepath.Glob(filepath.Join(trustedDir, "*.contracts"))
	sort.Strings(tf)
	for _, f := range tf {
		cf, e := parseContractFile(f, "", false)
		if e != nil {
			return nil, e
		}
		w.trustedFiles = append(w.trustedFiles, f)
		w.addContractFile(cf)
	}
	return w, nil
}

func (w *World) addContractFile(cf *ContractFile) {
	if cf.PkgPath != "" {
		if old, ok := w.cfiles[cf.PkgPath]; ok {
			// several contract files per package: merge
			old.Funcs = append(old.Funcs, cf.Funcs...)
			old.Specs = append(old.Specs, cf.Specs...)
			old.Lemmas = append(old.Lemmas, cf.Lemmas...)
			old.Ghosts = append(old.Ghosts, cf.Ghosts...)
			old.Guarded = append(old.Guarded, cf.Guarded...)
			old.WritersOf = append(old.WritersOf, cf.WritersOf...)
			old.Globals = append(old.Globals, cf.Globals...)
			old.Axioms = append(old.Axioms, cf.Axioms...)
			old.Immutable = append(old.Immutable, cf.Immutable...)
			old.Sites = append(old.Sites, cf.Sites...)
			old.Monitors = append(old.Monitors, cf.Monitors...)
		} else {
			w.cfiles[cf.PkgPath] = cf
		}
	}
	for _, f := range cf.Funcs {
		if strings.HasPrefix(f.Key, "functype:") {
			n := strings.TrimPrefix(f.Key, "functype:")
			if strings.HasPrefix(n, "@") {
				n = shortPkg(cf.PkgPath) + "." + n[1:]
			}
			w.functypes[n] = f
			if w.functypePkgPath == nil {
				w.functypePkgPath = map[*FuncContract]string{}
			}
			w.functypePkgPath[f] = cf.PkgPath
			continue
		}
		switch f.Kind {
		case "trusted":
			w.contracts[f.Key] = f
		default:
			w.contracts[cf.PkgPath+"\x00"+f.Key] = f
		}
	}
	for _, s := range cf.Specs {
		w.specs[s.Name] = s
		if cf.PkgPath != "" {
			w.specPkg[s.Name] = w.tpkgs[cf.PkgPath]
		}
	}
	for _, l := range cf.Lemmas {
		w.lemmas[l.Name] = l
	}
	for _, g := range cf.Ghosts {
		w.ghosts[g.Name] = g
	}
	for _, g := range cf.Guarded {
		for _, f := range g.Fields {
			w.guarded[cf.PkgPath+"."+f] = cf.PkgPath + "." + g.Mutex
		}
	}
	for _, f := range cf.Immutable {
		w.immutable[cf.PkgPath+"."+f] = true
	}
}

// contractFor returns the contract of an SSA function (repo function with a
// contract in its package's file, or a trusted contract of an external one).
func (w *World) contractFor(fn *ssa.Function) *FuncContract {
	if fn == nil {
		return nil
	}
	if fn.Pkg != nil && strings.HasPrefix(fn.Pkg.Pkg.Path(), modPath) {
		key := fn.RelString(fn.Pkg.Pkg)
		if c, ok := w.contracts[fn.Pkg.Pkg.Path()+"\x00"+key]; ok {
			return c
		}
		// allow trusted override by full name (e.g. packet.cast)
	}
	if c, ok := w.contracts[fn.String()]; ok {
		return c
	}
	return nil
}

func (w *World) ifaceContract(recvType types.Type, method string) *FuncContract {
	named, ok := recvType.(*types.Named)
	if !ok {
		return nil
	}
	obj := named.Obj()
	if obj.Pkg() == nil { // error
		if c, ok := w.contracts["error."+method]; ok {
			return c
		}
		return nil
	}
	if c, ok := w.contracts[obj.Pkg().Path()+"\x00"+obj.Name()+"."+method]; ok {
		return c
	}
	if c, ok := w.contracts[obj.Pkg().Path()+"."+obj.Name()+"."+method]; ok {
		return c
	}
	return nil
}

func (w *World) inRepo(fn *ssa.Function) bool {
	return fn != nil && fn.Pkg != nil && strings.HasPrefix(fn.Pkg.Pkg.Path(), modPath)
}

// findFunc resolves "pkgname.Key" e.g. "session.(*IDCounter).NextID".
func (w *World) findFunc(name string) *ssa.Function {
	for fn := range w.allFuncs {
		if fn.Pkg == nil || !w.inRepo(fn) {
			continue
		}
		if shortPkg(fn.Pkg.Pkg.Path())+"."+fn.RelString(fn.Pkg.Pkg) == name {
			return fn
		}
	}
	return nil
}

func fnDisplayName(fn *ssa.Function) string {
	if fn.Pkg == nil {
		return fn.String()
	}
	return shortPkg(fn.Pkg.Pkg.Path()) + "." + fn.RelString(fn.Pkg.Pkg)
}

// ---------------------------------------------------------------- types

func kindOf(t types.Type) Kind {
	switch u := t.Underlying().(type) {
	case *types.Basic:
		info := u.Info()
		switch {
		case info&types.IsBoolean != 0:
			return KBool
		case info&types.IsString != 0:
			return KStr
		case info&types.IsInteger != 0:
			return KInt
		case info&types.IsFloat != 0, info&types.IsComplex != 0:
			return KOpaque
		case u.Kind() == types.UnsafePointer:
			return KRef
		case u.Kind() == types.UntypedNil:
			return KRef
		}
	case *types.Pointer:
		switch u.Elem().Underlying().(type) {
		case *types.Struct, *types.Array:
			return KRef
		}
		return KPtr
	case *types.Slice:
		return KSlice
	case *types.Map, *types.Chan, *types.Signature:
		return KRef
	case *types.Interface:
		return KIface
	case *types.Struct:
		return KStruct
	case *types.Tuple:
		return KTuple
	case *types.Array:
		return KOpaque
	}
	panic(vcErrorf("unsupported type %s", t))
}

var two = big.NewInt(2)

func pow2(n uint) *big.Int { return new(big.Int).Lsh(big.NewInt(1), n) }

// intRange returns the value range of an integer type.
func intRange(t types.Type) (lo, hi *big.Int, bits uint, signed bool, ok bool) {
	b, isB := t.Underlying().(*types.Basic)
	if !isB || b.Info()&types.IsInteger == 0 {
		return nil, nil, 0, false, false
	}
	switch b.Kind() {
	case types.Int8:
		bits, signed = 8, true
	case types.Int16:
		bits, signed = 16, true
	case types.Int32:
		bits, signed = 32, true
	case types.Int, types.Int64, types.UntypedInt, types.UntypedRune:
		bits, signed = 64, true
	case types.Uint8:
		bits = 8
	case types.Uint16:
		bits = 16
	case types.Uint32:
		bits = 32
	case types.Uint, types.Uint64, types.Uintptr:
		bits = 64
	default:
		return nil, nil, 0, false, false
	}
	if signed {
		hi = new(big.Int).Sub(pow2(bits-1), big.NewInt(1))
		lo = new(big.Int).Neg(pow2(bits - 1))
	} else {
		lo = big.NewInt(0)
		hi = new(big.Int).Sub(pow2(bits), big.NewInt(1))
	}
	return lo, hi, bits, signed, true
}

func rangeFact(term string, t types.Type) string {
	lo, hi, _, _, ok := intRange(t)
	if !ok {
		return "true"
	}
	return sAnd(sLe(sBig(lo), term), sLe(term, sBig(hi)))
}

func structOf(t types.Type) *types.Struct {
	if p, ok := t.Underlying().(*types.Pointer); ok {
		t = p.Elem()
	}
	s, _ := t.Underlying().(*types.Struct)
	return s
}

func namedName(t types.Type) string {
	if p, ok := t.(*types.Pointer); ok {
		t = p.Elem()
	}
	return typeKey(t)
}

// fullFieldName gives "pkgpath.Type.field" for guarded_by lookups.
func fullFieldName(t types.Type, field string) string {
	if p, ok := t.(*types.Pointer); ok {
		t = p.Elem()
	}
	if n, ok := t.(*types.Named); ok && n.Obj().Pkg() != nil {
		return n.Obj().Pkg().Path() + "." + n.Obj().Name() + "." + field
	}
	return typeKey(t) + "." + field
}

// functypeContract: contract for calling a value of function type t.
func (w *World) functypeContract(t types.Type) *FuncContract {
	if fc, ok := w.functypes[typeKey(t)]; ok {
		return fc
	}
	if fc, ok := w.functypes[typeKey(t.Underlying())]; ok {
		return fc
	}
	return nil
}

// isConstGlobal reports whether comp is the component of a package-level
// variable with a declared invariant (such variables are checked never to be
// written outside the package initialiser and are modelled as constants).
func (w *World) isConstGlobal(comp string) bool {
	if !strings.HasPrefix(comp, "V$") {
		return false
	}
	for path, cf := range w.cfiles {
		for _, g := range cf.Globals {
			if comp == "V$"+path+"."+g.Name || comp == "V$"+shortPkg(path)+"."+g.Name {
				return true
			}
		}
	}
	return false
}

// anonSig returns the signature with unnamed parameters and results (the
// form in which function types are written at parameter declarations).
func anonSig(sig *types.Signature) *types.Signature {
	strip := func(t *types.Tuple) *types.Tuple {
		var vs []*types.Var
		for i := 0; i < t.Len(); i++ {
			vs = append(vs, types.NewVar(token.NoPos, nil, "", t.At(i).Type()))
		}
		return types.NewTuple(vs...)
	}
	return types.NewSignatureType(nil, nil, nil, strip(sig.Params()), strip(sig.Results()), sig.Variadic())
}

// refinementTarget: the function-type contract a closure under contract has
// to refine (callees invoke it knowing only that contract).
func (w *World) refinementTarget(fn *ssa.Function) *FuncContract {
	if fn.Parent() == nil {
		return nil
	}
	if fc := w.functypeContract(fn.Signature); fc != nil {
		return fc
	}
	return w.functypeContract(anonSig(fn.Signature))
}
