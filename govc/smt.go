package main

import (
	"fmt"
	"go/types"
	"math/big"
	"sort"
	"strings"
)

// ---------------------------------------------------------------- terms

func sAnd(xs ...string) string {
	var ys []string
	for _, x := range xs {
		if x == "true" || x == "" {
			continue
		}
		if x == "false" {
			return "false"
		}
		ys = append(ys, x)
	}
	if len(ys) == 0 {
		return "true"
	}
	if len(ys) == 1 {
		return ys[0]
	}
	return "(and " + strings.Join(ys, " ") + ")"
}
func sOr(xs ...string) string {
	var ys []string
	for _, x := range xs {
		if x == "false" || x == "" {
			continue
		}
		if x == "true" {
			return "true"
		}
		ys = append(ys, x)
	}
	if len(ys) == 0 {
		return "false"
	}
	if len(ys) == 1 {
		return ys[0]
	}
	return "(or " + strings.Join(ys, " ") + ")"
}
func sNot(x string) string {
	if x == "true" {
		return "false"
	}
	if x == "false" {
		return "true"
	}
	if strings.HasPrefix(x, "(not ") {
		return x[5 : len(x)-1]
	}
	return "(not " + x + ")"
}
func sImp(a, b string) string {
	if a == "true" {
		return b
	}
	if a == "false" || b == "true" {
		return "true"
	}
	return "(=> " + a + " " + b + ")"
}
func sIte(c, a, b string) string {
	if c == "true" {
		return a
	}
	if c == "false" {
		return b
	}
	if a == b {
		return a
	}
	return "(ite " + c + " " + a + " " + b + ")"
}
func sEq(a, b string) string {
	if a == b {
		return "true"
	}
	return "(= " + a + " " + b + ")"
}
func sSel(a, i string) string    { return "(select " + a + " " + i + ")" }
func sSto(a, i, v string) string { return "(store " + a + " " + i + " " + v + ")" }
func sApp(f string, args ...string) string {
	if len(args) == 0 {
		return f
	}
	return "(" + f + " " + strings.Join(args, " ") + ")"
}
func sNum(n int64) string {
	if n < 0 {
		return fmt.Sprintf("(- %d)", -n)
	}
	return fmt.Sprintf("%d", n)
}
func sBig(n *big.Int) string {
	if n.Sign() < 0 {
		return "(- " + new(big.Int).Neg(n).String() + ")"
	}
	return n.String()
}
func sAdd(a, b string) string {
	if b == "0" {
		return a
	}
	if a == "0" {
		return b
	}
	// a + (x - a) = x   (absolute-index re-parametrisation of triggers)
	if strings.HasPrefix(b, "(- ") && strings.HasSuffix(b, " "+a+")") {
		x := b[3 : len(b)-len(a)-2]
		if balanced(x) {
			return x
		}
	}
	return "(+ " + a + " " + b + ")"
}
func sSub(a, b string) string {
	if b == "0" {
		return a
	}
	return "(- " + a + " " + b + ")"
}
func sLe(a, b string) string { return "(<= " + a + " " + b + ")" }
func sLt(a, b string) string { return "(< " + a + " " + b + ")" }

func qsym(s string) string {
	ok := true
	for _, c := range s {
		if !(c == '_' || c == '.' || c == '$' || c == '@' || c == '!' || (c >= '0' && c <= '9') || (c >= 'a' && c <= 'z') || (c >= 'A' && c <= 'Z')) {
			ok = false
			break
		}
	}
	if ok && len(s) > 0 && !(s[0] >= '0' && s[0] <= '9') {
		return s
	}
	return "|" + strings.ReplaceAll(s, "|", "!") + "|"
}

// ---------------------------------------------------------------- values

type Kind int

const (
	KInt Kind = iota
	KBool
	KStr
	KSlice
	KRef   // pointer to struct/array object, map, chan, func value: an Int (0 = nil)
	KPtr   // pointer to a scalar: static location (and possibly a ref term)
	KIface // (tag, payload)
	KStruct
	KTuple
	KUnit
	KOpaque // floats etc: Int, no semantics
)

func (k Kind) String() string {
	return [...]string{"int", "bool", "string", "slice", "ref", "ptr", "iface", "struct", "tuple", "unit", "opaque"}[k]
}

type Loc struct {
	Comp string // heap component
	Sort string // element sort
	Idx  string // first index
	Idx2 string // second index ("" for one-level components)
}

type Val struct {
	K      Kind
	T      string // SMT term (scalar kinds)
	Typ    types.Type
	Fields []Val // struct / tuple
	Loc    *Loc  // KPtr
	Known  int   // for slices of fresh fixed arrays: static length+1 (0 = unknown)
	Sort   string // KArr: SMT sort
}

const (
	sortInt   = "Int"
	sortBool  = "Bool"
	sortStr   = "Str"
	sortSlice = "Slice"
	sortIface = "Iface"
)

func kindSort(k Kind) string {
	switch k {
	case KInt, KRef, KPtr, KOpaque:
		return sortInt
	case KBool:
		return sortBool
	case KStr:
		return sortStr
	case KSlice:
		return sortSlice
	case KIface:
		return sortIface
	}
	panic(vcErrorf("no scalar sort for kind %v", k))
}

func arrSort(idx, elem string) string { return "(Array " + idx + " " + elem + ")" }

type vcError struct{ msg string }

func (e vcError) Error() string { return e.msg }
func vcErrorf(f string, a ...interface{}) vcError {
	return vcError{fmt.Sprintf(f, a...)}
}

// ---------------------------------------------------------------- VC container

type itemKind int

const (
	itFact itemKind = iota
	itOblig
)

type Item struct {
	Kind  itemKind
	Name  string // obligation name
	Class string // obligation class: index, slice, nil, ensures, pre, inv, frame, ...
	Term  string
	Desc  string
	Aux   map[string]string
}

type VC struct {
	freshGhosts [][2]string // havoced ghost components waiting for their 'zero beyond the allocation counter' fact
	splitVars []string // reach conditions of named calls (case-split candidates)
	constDone map[string]bool
	w        *World
	Name     string
	decls    []string
	declared map[string]bool
	compSort map[string]string
	Items    []Item
	nfresh   int
	tags     map[string]int
	tagNames []string
	strConst map[string]string
	specDone map[string]bool
	specComps map[string][]string // heap components a spec function reads (ordered)
	assumptions map[string]bool
	funcsUsed   map[string]bool
	localPrefix map[string]string // ref term of a non-escaping local struct -> component prefix
	lockUID     map[string]int
}

func newVC(w *World, name string) *VC {
	vc := &VC{w: w, Name: name, declared: map[string]bool{}, compSort: map[string]string{},
		tags: map[string]int{}, strConst: map[string]string{}, specDone: map[string]bool{},
		specComps: map[string][]string{}, assumptions: map[string]bool{}, funcsUsed: map[string]bool{}, localPrefix: map[string]string{}, lockUID: map[string]int{}}
	return vc
}

const prelude = `(set-logic ALL)
(declare-sort Str 0)
(declare-fun slen (Str) Int)
(declare-fun sat (Str Int) Int)
(declare-datatypes ((Slice 0)) (((mk-slice (s-arr Int) (s-off Int) (s-len Int) (s-cap Int)))))
(declare-datatypes ((Iface 0)) (((mk-iface (i-tag Int) (i-val Int)))))
(declare-datatypes ((Lv 0)) (((lnil) (lcons (lhd Str) (ltl Lv)))))
(assert (forall ((s Str)) (! (and (>= (slen s) 0) (<= (slen s) 281474976710656)) :pattern ((slen s)))))
(assert (forall ((s Str) (i Int)) (! (and (<= 0 (sat s i)) (<= (sat s i) 255)) :pattern ((sat s i)))))
(declare-fun box$Str (Str) Int)
(declare-fun unbox$Str (Int) Str)
(assert (forall ((s Str)) (! (= (unbox$Str (box$Str s)) s) :pattern ((box$Str s)))))
(declare-fun str_of ((Array Int Int) Int Int) Str)
(assert (forall ((a (Array Int Int)) (o Int) (n Int)) (! (=> (and (>= n 0) (<= n 281474976710656)) (= (slen (str_of a o n)) n)) :pattern ((str_of a o n)))))
(assert (forall ((a (Array Int Int)) (o Int) (n Int) (i Int)) (! (=> (and (<= 0 i) (< i n) (<= 0 (select a (+ o i))) (<= (select a (+ o i)) 255)) (= (sat (str_of a o n) i) (select a (+ o i)))) :pattern ((sat (str_of a o n) i)))))
(declare-fun substr (Str Int Int) Str)
(assert (forall ((s Str) (o Int) (n Int)) (! (=> (and (>= n 0) (<= n 281474976710656)) (= (slen (substr s o n)) n)) :pattern ((substr s o n)))))
(assert (forall ((s Str) (o Int) (n Int) (i Int)) (! (=> (and (<= 0 i) (< i n)) (= (sat (substr s o n) i) (sat s (+ o i)))) :pattern ((sat (substr s o n) i)))))
(define-fun wrap64 ((x Int)) Int (let ((m (mod x 18446744073709551616))) (ite (>= m 9223372036854775808) (- m 18446744073709551616) m)))
(define-fun bit ((x Int) (k Int)) Int (mod (div x k) 2))
`

func (vc *VC) decl(key, line string) {
	if vc.declared[key] {
		return
	}
	vc.declared[key] = true
	vc.decls = append(vc.decls, line)
}

func (vc *VC) declConst(name, sort string) {
	vc.decl("c:"+name, fmt.Sprintf("(declare-const %s %s)", name, sort))
}

func (vc *VC) declFun(name string, args []string, res string) {
	vc.decl("f:"+name, fmt.Sprintf("(declare-fun %s (%s) %s)", name, strings.Join(args, " "), res))
}

func (vc *VC) fresh(prefix, sort string) string {
	vc.nfresh++
	n := qsym(fmt.Sprintf("%s!%d", prefix, vc.nfresh))
	vc.declConst(n, sort)
	return n
}

func (vc *VC) fact(term, desc string) {
	if term == "true" {
		return
	}
	vc.Items = append(vc.Items, Item{Kind: itFact, Term: simplifyTerm(term), Desc: desc})
}

func (vc *VC) oblig(name, class, term, desc string) {
	vc.Items = append(vc.Items, Item{Kind: itOblig, Name: name, Class: class, Term: simplifyTerm(term), Desc: desc})
}

func (vc *VC) assume(a string) { vc.assumptions[a] = true }

func (vc *VC) tagOf(t types.Type) int {
	k := typeKey(t)
	if n, ok := vc.tags[k]; ok {
		return n
	}
	n := len(vc.tags) + 1
	vc.tags[k] = n
	vc.tagNames = append(vc.tagNames, k)
	return n
}

// strLit returns a Str constant for a Go string literal, with its length and
// bytes asserted.
func (vc *VC) strLit(s string) string {
	if n, ok := vc.strConst[s]; ok {
		return n
	}
	n := qsym(fmt.Sprintf("str$%d", len(vc.strConst)))
	vc.strConst[s] = n
	vc.declConst(n, sortStr)
	parts := []string{sEq(sApp("slen", n), sNum(int64(len(s))))}
	for i := 0; i < len(s) && i < 64; i++ {
		parts = append(parts, sEq(sApp("sat", n, sNum(int64(i))), sNum(int64(s[i]))))
	}
	vc.decl("strfact:"+n, "(assert "+sAnd(parts...)+")")
	// distinct literals of different content are different strings
	var others []string
	for o := range vc.strConst {
		others = append(others, o)
	}
	sort.Strings(others)
	for _, o := range others {
		if o != s {
			vc.decl("strne:"+n+vc.strConst[o], "(assert (not (= "+n+" "+vc.strConst[o]+")))")
		}
	}
	return n
}

// query builds the SMT-LIB text for obligation index k (all facts and
// obligations before k are assumed).
func (vc *VC) query(k int, extra string) string {
	var sb strings.Builder
	sb.WriteString(prelude)
	for _, d := range vc.decls {
		sb.WriteString(d)
		sb.WriteByte('\n')
	}
	for i := 0; i < k; i++ {
		if vc.Items[k].Class == "canary" && vc.Items[i].Kind == itOblig {
			continue // the canary tests the assumptions only (a failed obligation is reported on its own)
		}
		sb.WriteString("(assert ")
		sb.WriteString(vc.Items[i].Term)
		sb.WriteString(")\n")
	}
	if extra != "" {
		sb.WriteString(extra)
	}
	sb.WriteString("(assert (not ")
	sb.WriteString(vc.Items[k].Term)
	sb.WriteString("))\n(check-sat)\n")
	return sb.String()
}

// ---------------------------------------------------------------- heaps

// Heap maps component -> current version term. Components not in the map
// resolve to the base version of the epoch (declared on demand).
type Heap struct {
	m     map[string]string
	epoch int
}

func newHeap(epoch int) *Heap { return &Heap{m: map[string]string{}, epoch: epoch} }

func (h *Heap) clone() *Heap {
	n := &Heap{m: make(map[string]string, len(h.m)), epoch: h.epoch}
	for k, v := range h.m {
		n.m[k] = v
	}
	return n
}

func (vc *VC) compDecl(comp, sort string) {
	if s, ok := vc.compSort[comp]; ok {
		if s != sort {
			panic(vcErrorf("component %s used with sorts %s and %s", comp, s, sort))
		}
		return
	}
	vc.compSort[comp] = sort
}

func (vc *VC) hget(h *Heap, comp string) string {
	if vc.w.isConstGlobal(comp) {
		// package-level variable with a declared invariant: never written
		// outside the package initialiser (obligation "sites ... global"),
		// so every heap holds the same value
		n := qsym(comp + "@const")
		if !vc.constDone[n] {
			if vc.constDone == nil {
				vc.constDone = map[string]bool{}
			}
			vc.constDone[n] = true
			vc.declConst(n, vc.compSort[comp])
			vc.wellFormedComp(comp, n)
		}
		return n
	}
	if v, ok := h.m[comp]; ok {
		return v
	}
	sort, ok := vc.compSort[comp]
	if !ok {
		panic(vcErrorf("component %s has no sort", comp))
	}
	n := qsym(fmt.Sprintf("%s@e%d", comp, h.epoch))
	vc.declConst(n, sort)
	vc.wellFormedComp(comp, n)
	if (sort == "(Array Int Slice)" || vc.w.compRefLike[comp]) && comp != compAlloc && !strings.HasPrefix(comp, "G$") {
		// heap closedness: every slice / reference stored in an object that
		// exists in the heap of this epoch refers to something allocated
		// before the epoch's allocation counter (entries of not yet allocated
		// objects are unconstrained: a callee's fresh objects live there)
		vc.compDecl(compAlloc, sortInt)
		a := vc.hget(&Heap{m: map[string]string{}, epoch: h.epoch}, compAlloc)
		val := fmt.Sprintf("(select %s a)", n)
		if sort == "(Array Int Slice)" {
			val = "(s-arr " + val + ")"
		}
		concl := fmt.Sprintf("(< %s %s)", val, a)
		if sort != "(Array Int Slice)" {
			// a stored reference denotes an existing object (also an element
			// or embedded-struct reference, which is negative)
			concl = vc.existedAt(val, a)
		}
		vc.decl("closed:"+n, fmt.Sprintf("(assert (forall ((a Int)) (! (=> %s %s) :pattern ((select %s a)))))", vc.existedAt("a", a), concl, n))
	}
	if comp == compAlloc {
		vc.decl("allocpos:"+n, "(assert (< 0 "+n+"))")
	}
	if strings.HasPrefix(comp, "G$") && comp != compAlloc {
		// ghost maps keyed by references: objects that do not exist in this
		// epoch's heap have the zero value (same convention as at function
		// entry; needed after whole-heap havocs, which start a new epoch)
		if g, ok := vc.w.ghosts[strings.TrimPrefix(comp, "G$")]; ok {
			gt := strings.ReplaceAll(g.Type, " ", "")
			isLock := strings.HasPrefix(gt, "map[lock]")
			if strings.HasPrefix(gt, "map[ref]") || isLock {
				es := ghostSort(gt[strings.Index(gt, "]")+1:])
				zero := ""
				if es == sortBool {
					zero = "false"
				} else if es == sortInt {
					zero = "0"
				}
				if zero != "" {
					vc.compDecl(compAlloc, sortInt)
					a := vc.hget(&Heap{m: map[string]string{}, epoch: h.epoch}, compAlloc)
					idx := "i"
					if isLock {
						idx = fmt.Sprintf("(div i %d)", lockStride)
					}
					vc.decl("ghostzero:"+n, fmt.Sprintf("(assert (forall ((i Int)) (! (=> (>= %s %s) (= (select %s i) %s)) :pattern ((select %s i)))))", idx, a, n, zero, n))
				}
			}
		}
	}
	return n
}

func (vc *VC) hset(h *Heap, comp, term string) { h.m[comp] = term }

// hfresh gives comp a brand-new (havoced) version.
func (vc *VC) hfresh(h *Heap, comp string) string {
	sort := vc.compSort[comp]
	n := vc.fresh(comp+"@h", sort)
	vc.wellFormedComp(comp, n)
	if strings.HasPrefix(comp, "G$") {
		vc.freshGhosts = append(vc.freshGhosts, [2]string{comp, n})
	}
	h.m[comp] = n
	return n
}

// wellFormedComp attaches range axioms to a fresh version of a component
// that stores bounded integers (bytes, QOS ...).
func (vc *VC) wellFormedComp(comp, name string) {
	sort := vc.compSort[comp]
	if sort == "(Array Int Slice)" {
		// every slice header stored in memory is well-formed
		vc.decl("wf:"+name, fmt.Sprintf("(assert (forall ((a Int)) (! (let ((s (select %s a))) (and (<= 0 (s-off s)) (<= 0 (s-len s)) (<= (s-len s) (s-cap s)) (<= (+ (s-off s) (s-cap s)) %s) (<= 0 (s-arr s)) (=> (= (s-arr s) 0) (= (s-cap s) 0)))) :pattern ((select %s a)))))", name, maxLenStr, name))
		return
	}
	r, ok := vc.w.compRange[comp]
	if !ok {
		return
	}
	lo, hi := sBig(r[0]), sBig(r[1])
	if strings.HasPrefix(sort, "(Array Int (Array Int Int))") {
		vc.decl("wf:"+name, fmt.Sprintf("(assert (forall ((a Int) (i Int)) (! (and (<= %s (select (select %s a) i)) (<= (select (select %s a) i) %s)) :pattern ((select (select %s a) i)))))", lo, name, name, hi, name))
	} else if sort == "(Array Int Int)" {
		vc.decl("wf:"+name, fmt.Sprintf("(assert (forall ((a Int)) (! (and (<= %s (select %s a)) (<= (select %s a) %s)) :pattern ((select %s a)))))", lo, name, name, hi, name))
	}
}

// balanced: s is one complete SMT term (atom or one parenthesised term).
func balanced(s string) bool {
	if s == "" {
		return false
	}
	depth := 0
	for i := 0; i < len(s); i++ {
		switch s[i] {
		case '(':
			depth++
		case ')':
			depth--
			if depth < 0 {
				return false
			}
			if depth == 0 && i != len(s)-1 {
				return false
			}
		case ' ':
			if depth == 0 {
				return false
			}
		}
	}
	return depth == 0
}
