package main

// Peephole simplifier over SMT terms: accessor-of-constructor rewriting, so
// that slices derived by reslicing keep syntactically canonical array/offset
// terms (robust E-matching) without datatype reasoning.

import "strings"

type sx struct {
	atom string
	kids []*sx
}

func parseSx(s string) *sx {
	pos := 0
	var parse func() *sx
	parse = func() *sx {
		for pos < len(s) && (s[pos] == ' ' || s[pos] == '\n' || s[pos] == '\t') {
			pos++
		}
		if pos >= len(s) {
			return nil
		}
		if s[pos] == '(' {
			pos++
			n := &sx{}
			for {
				for pos < len(s) && (s[pos] == ' ' || s[pos] == '\n' || s[pos] == '\t') {
					pos++
				}
				if pos >= len(s) {
					return n
				}
				if s[pos] == ')' {
					pos++
					return n
				}
				k := parse()
				if k == nil {
					return n
				}
				n.kids = append(n.kids, k)
			}
		}
		start := pos
		if s[pos] == '|' {
			pos++
			for pos < len(s) && s[pos] != '|' {
				pos++
			}
			pos++
		} else {
			for pos < len(s) && s[pos] != ' ' && s[pos] != ')' && s[pos] != '(' && s[pos] != '\n' && s[pos] != '\t' {
				pos++
			}
		}
		return &sx{atom: s[start:pos]}
	}
	return parse()
}

func (n *sx) write(sb *strings.Builder) {
	if n.kids == nil && n.atom != "" {
		sb.WriteString(n.atom)
		return
	}
	sb.WriteByte('(')
	for i, k := range n.kids {
		if i > 0 {
			sb.WriteByte(' ')
		}
		k.write(sb)
	}
	sb.WriteByte(')')
}

var accIndex = map[string][2]interface{}{
	"s-arr": {"mk-slice", 1}, "s-off": {"mk-slice", 2}, "s-len": {"mk-slice", 3}, "s-cap": {"mk-slice", 4},
	"i-tag": {"mk-iface", 1}, "i-val": {"mk-iface", 2},
}

func (n *sx) simp() *sx {
	if n.kids == nil {
		return n
	}
	for i, k := range n.kids {
		n.kids[i] = k.simp()
	}
	if len(n.kids) == 2 && n.kids[0].kids == nil {
		if acc, ok := accIndex[n.kids[0].atom]; ok {
			arg := n.kids[1]
			if arg.kids != nil && len(arg.kids) > acc[1].(int) && arg.kids[0].kids == nil && arg.kids[0].atom == acc[0].(string) {
				return arg.kids[acc[1].(int)]
			}
		}
	}
	// (+ x 0) / (+ 0 x)
	if len(n.kids) == 3 && n.kids[0].atom == "+" {
		if n.kids[2].atom == "0" && n.kids[2].kids == nil {
			return n.kids[1]
		}
		if n.kids[1].atom == "0" && n.kids[1].kids == nil {
			return n.kids[2]
		}
	}
	if len(n.kids) == 3 && n.kids[0].atom == "-" && n.kids[2].atom == "0" && n.kids[2].kids == nil {
		return n.kids[1]
	}
	return n
}

func simplifyTerm(t string) string {
	if !strings.Contains(t, "(mk-slice") && !strings.Contains(t, "(mk-iface") {
		return t
	}
	n := parseSx(t)
	if n == nil {
		return t
	}
	n = n.simp()
	var sb strings.Builder
	n.write(&sb)
	return sb.String()
}
