package main

// Memory model: heap components, loads, stores, allocation, zero values.

import (
	"fmt"
	"go/types"
	"math/big"
)

const compAlloc = "$alloc" // allocation counter, sort Int (scalar component)

func (vc *VC) scalarSort(t types.Type) string { return kindSort(kindOf(t)) }

// fieldComp returns the heap component of a scalar field.
func (vc *VC) fieldComp(st types.Type, idx int) (comp string, ft types.Type) {
	s := structOf(st)
	f := s.Field(idx)
	comp = "F$" + namedName(st) + "$" + f.Name()
	ft = f.Type()
	sort := vc.scalarSort(ft)
	vc.compDecl(comp, arrSort(sortInt, sort))
	if lo, hi, _, _, ok := intRange(ft); ok {
		vc.w.compRange[comp] = [2]*big.Int{lo, hi}
	}
	if kindOf(ft) == KRef {
		if _, isSig := ft.Underlying().(*types.Signature); !isSig {
			vc.w.compRefLike[comp] = true
		}
	}
	return
}

func (vc *VC) elemComp(et types.Type) string {
	comp := "E$" + typeKey(et)
	vc.compDecl(comp, arrSort(sortInt, arrSort(sortInt, vc.scalarSort(et))))
	if lo, hi, _, _, ok := intRange(et); ok {
		vc.w.compRange[comp] = [2]*big.Int{lo, hi}
	}
	return comp
}

func (vc *VC) cellComp(et types.Type) string {
	comp := "C$" + typeKey(et)
	vc.compDecl(comp, arrSort(sortInt, vc.scalarSort(et)))
	if lo, hi, _, _, ok := intRange(et); ok {
		vc.w.compRange[comp] = [2]*big.Int{lo, hi}
	}
	return comp
}

func (vc *VC) globalComp(pkg, name string, t types.Type) string {
	comp := "V$" + pkg + "." + name
	vc.compDecl(comp, arrSort(sortInt, vc.scalarSort(t)))
	return comp
}

func mapKeySort(vc *VC, mt *types.Map) string { return vc.scalarSort(mt.Key()) }

func (vc *VC) mapComps(t types.Type) (mh, mv, ml string, mt *types.Map) {
	mt = t.Underlying().(*types.Map)
	k := typeKey(mt)
	ks := mapKeySort(vc, mt)
	mh, mv, ml = "MH$"+k, "MV$"+k, "ML$"+k
	vc.compDecl(mh, arrSort(sortInt, arrSort(ks, sortBool)))
	if kindOf(mt.Elem()) == KStruct {
		if st, ok := mt.Elem().Underlying().(*types.Struct); ok && st.NumFields() == 0 {
			// set idiom map[K]struct{}: the values carry no information
			vc.compDecl(mv, arrSort(sortInt, arrSort(ks, sortInt)))
			vc.compDecl(ml, arrSort(sortInt, sortInt))
			return
		}
		panic(vcErrorf("maps with struct values are not supported (%s)", k))
	}
	vc.compDecl(mv, arrSort(sortInt, arrSort(ks, vc.scalarSort(mt.Elem()))))
	vc.compDecl(ml, arrSort(sortInt, sortInt))
	return
}

// Address space. Every object occupies the addresses [ref, ref+size(T)); the
// sub-object for a struct-typed field embedded by value sits at a fixed offset
// (like a memory layout), so freshness and distinctness of sub-objects follow
// from arithmetic. Allocation advances the counter by objStride. Struct-typed
// slice elements live at negative addresses -objStride*erefid(arr,idx).
const objStride = 65536

// structSize: number of addresses a value of type t occupies.
func structSize(t types.Type) int64 {
	s, ok := t.Underlying().(*types.Struct)
	if !ok {
		return 1
	}
	n := int64(1)
	for i := 0; i < s.NumFields(); i++ {
		if kindOf(s.Field(i).Type()) == KStruct {
			n += structSize(s.Field(i).Type())
		}
	}
	if n >= objStride {
		panic(vcErrorf("struct %s too large for the address model", t))
	}
	return n
}

// embOffset: offset of the sub-object of field idx inside struct st.
func embOffset(st types.Type, idx int) int64 {
	s := structOf(st)
	off := int64(1)
	for i := 0; i < idx; i++ {
		if kindOf(s.Field(i).Type()) == KStruct {
			off += structSize(s.Field(i).Type())
		}
	}
	return off
}

// embRef gives the object ref of a struct-typed field embedded by value.
func (vc *VC) embRef(st types.Type, idx int, ref string) string {
	// Lock objects (sync.Mutex / sync.RWMutex fields) get a typed address
	// ref*lockStride + uid, uid unique per (owner type, field): memory is
	// typed, so the locks of objects of different types - or different lock
	// fields of one object - are distinct, and the solver sees it by
	// arithmetic. These addresses are only used as keys of ghost lock maps.
	s := structOf(st)
	if isLockType(s.Field(idx).Type()) {
		key := namedName(st) + "." + s.Field(idx).Name()
		uid, ok := vc.lockUID[key]
		if !ok {
			uid = len(vc.lockUID) + 1
			vc.lockUID[key] = uid
		}
		return fmt.Sprintf("(+ (* %s %d) %d)", ref, lockStride, uid)
	}
	return sAdd(ref, sNum(embOffset(st, idx)))
}

const lockStride = 4096

func isLockType(t types.Type) bool {
	n, ok := t.(*types.Named)
	if !ok || n.Obj().Pkg() == nil || n.Obj().Pkg().Path() != "sync" {
		return false
	}
	return n.Obj().Name() == "Mutex" || n.Obj().Name() == "RWMutex"
}

// elemRef gives the object ref of a struct-typed slice element.
func (vc *VC) elemRef(et types.Type, arr, idx string) string {
	vc.erefDecls()
	return sApp("eref", arr, idx)
}

func (vc *VC) erefDecls() {
	vc.declFun("erefid", []string{sortInt, sortInt}, sortInt)
	vc.declFun("erefarr", []string{sortInt}, sortInt)
	vc.declFun("erefidx", []string{sortInt}, sortInt)
	vc.decl("erefax", fmt.Sprintf("(assert (forall ((a Int) (i Int)) (! (and (= (erefarr (erefid a i)) a) (= (erefidx (erefid a i)) i) (>= (erefid a i) 1)) :pattern ((erefid a i)))))"))
	vc.decl("erefdef", fmt.Sprintf("(define-fun eref ((a Int) (i Int)) Int (- (* %d (erefid a i))))", objStride))
	// the element a (possibly interior) negative address belongs to
	vc.decl("gidef", fmt.Sprintf("(define-fun gid ((r Int)) Int (div (+ (- r) %d) %d))", objStride-1, objStride))
}

// existedAt: address r belonged to an object that existed when the
// allocation counter was alloc0.
func (vc *VC) existedAt(r, alloc0 string) string {
	vc.erefDecls()
	return sIte("(>= "+r+" 0)", sLt(r, alloc0), sLt(sApp("erefarr", sApp("gid", r)), alloc0))
}

func (vc *VC) zero(t types.Type) Val {
	k := kindOf(t)
	switch k {
	case KInt, KRef, KOpaque:
		return Val{K: k, T: "0", Typ: t}
	case KPtr:
		return Val{K: KPtr, T: "0", Typ: t}
	case KBool:
		return Val{K: k, T: "false", Typ: t}
	case KStr:
		return Val{K: k, T: vc.strLit(""), Typ: t}
	case KSlice:
		return Val{K: k, T: "(mk-slice 0 0 0 0)", Typ: t}
	case KIface:
		return Val{K: k, T: "(mk-iface 0 0)", Typ: t}
	case KStruct:
		s := t.Underlying().(*types.Struct)
		v := Val{K: KStruct, Typ: t}
		for i := 0; i < s.NumFields(); i++ {
			v.Fields = append(v.Fields, vc.zero(s.Field(i).Type()))
		}
		return v
	}
	panic(vcErrorf("no zero value for %s", t))
}

// loadLoc reads a scalar from a location.
func (vc *VC) loadLoc(h *Heap, l *Loc) string {
	c := vc.hget(h, l.Comp)
	if l.Idx2 != "" {
		return sSel(sSel(c, l.Idx), l.Idx2)
	}
	return sSel(c, l.Idx)
}

func (vc *VC) storeLoc(h *Heap, l *Loc, v string) {
	c := vc.hget(h, l.Comp)
	var n string
	if l.Idx2 != "" {
		n = sSto(c, l.Idx, sSto(sSel(c, l.Idx), l.Idx2, v))
	} else {
		n = sSto(c, l.Idx, v)
	}
	// name the new version to keep terms small
	name := vc.fresh(l.Comp+"@s", vc.compSort[l.Comp])
	vc.fact(sEq(name, n), "")
	vc.hset(h, l.Comp, name)
}

// fieldOf returns the value designating field idx of the struct object ref:
// a KPtr location for scalar fields, a KRef for embedded structs.
func (vc *VC) fieldOf(st types.Type, idx int, ref string) Val {
	s := structOf(st)
	ft := s.Field(idx).Type()
	pfx, private := vc.localPrefix[ref]
	if kindOf(ft) == KStruct {
		sub := vc.embRef(st, idx, ref)
		if private {
			vc.localPrefix[sub] = pfx + "." + s.Field(idx).Name()
		}
		return Val{K: KRef, T: sub, Typ: types.NewPointer(ft)}
	}
	comp, _ := vc.fieldComp(st, idx)
	if private {
		// field of a non-escaping local struct variable: private component
		// (cannot alias any heap object)
		pc := "L$" + pfx + "$" + s.Field(idx).Name()
		vc.compDecl(pc, vc.compSort[comp])
		if r, ok := vc.w.compRange[comp]; ok {
			vc.w.compRange[pc] = r
		}
		comp = pc
	}
	return Val{K: KPtr, Typ: types.NewPointer(ft), Loc: &Loc{Comp: comp, Sort: vc.scalarSort(ft), Idx: ref}}
}

// scalarVal wraps a loaded term with its kind.
func scalarVal(t types.Type, term string) Val {
	return Val{K: kindOf(t), T: term, Typ: t}
}

// loadStruct reads a struct value from object ref.
func (vc *VC) loadStruct(h *Heap, st types.Type, ref string) Val {
	s := structOf(st)
	v := Val{K: KStruct, Typ: st}
	if p, ok := st.Underlying().(*types.Pointer); ok {
		v.Typ = p.Elem()
	}
	for i := 0; i < s.NumFields(); i++ {
		f := vc.fieldOf(st, i, ref)
		if f.K == KRef {
			v.Fields = append(v.Fields, vc.loadStruct(h, s.Field(i).Type(), f.T))
		} else {
			v.Fields = append(v.Fields, scalarVal(s.Field(i).Type(), vc.loadLoc(h, f.Loc)))
		}
	}
	return v
}

func (vc *VC) storeStruct(h *Heap, st types.Type, ref string, v Val) {
	s := structOf(st)
	if len(v.Fields) != s.NumFields() {
		panic(vcErrorf("struct store arity mismatch for %s", st))
	}
	for i := 0; i < s.NumFields(); i++ {
		f := vc.fieldOf(st, i, ref)
		if f.K == KRef {
			vc.storeStruct(h, s.Field(i).Type(), f.T, v.Fields[i])
		} else {
			vc.storeLoc(h, f.Loc, v.Fields[i].T)
		}
	}
}

// alloc returns a fresh object id and advances the allocation counter.
func (vc *VC) alloc(h *Heap) string {
	vc.compDecl(compAlloc, sortInt)
	cur := vc.hgetScalar(h, compAlloc)
	r := vc.fresh("new", sortInt)
	vc.fact(sAnd(sEq(r, cur), sLt("0", r)), "")
	nx := vc.fresh("$alloc", sortInt)
	vc.fact(sEq(nx, sAdd(cur, sNum(objStride))), "")
	h.m[compAlloc] = nx
	return r
}

func (vc *VC) hgetScalar(h *Heap, comp string) string { return vc.hget(h, comp) }

// knownRef states that a reference read from memory or received as an
// argument designates an object allocated before now (or nil, or an interior
// reference, which are negative).
func (vc *VC) knownRef(h *Heap, term string) string {
	vc.compDecl(compAlloc, sortInt)
	return sLe(sAdd(term, sNum(objStride)), vc.hgetScalar(h, compAlloc))
}

// knownRefT: a pointer to a (sub)object of type t lies, with its whole
// extent, below the allocation counter.
func (vc *VC) knownRefT(h *Heap, term string, t types.Type) string {
	vc.compDecl(compAlloc, sortInt)
	size := int64(1)
	isStructPtr := false
	if p, ok := t.Underlying().(*types.Pointer); ok {
		size = structSize(p.Elem())
		_, isStructPtr = p.Elem().Underlying().(*types.Struct)
	}
	a := vc.hgetScalar(h, compAlloc)
	if isStructPtr {
		// a struct-typed slice element (negative address) belongs to an
		// array that exists
		return sAnd(sLe(sAdd(term, sNum(size)), a), sOr(sLe("0", term), vc.existedAt(term, a)))
	}
	return sLe(sAdd(term, sNum(size)), a)
}

// typeFacts returns the assumptions that hold for any value of Go type t
// obtained from parameters, memory or calls.
func (vc *VC) typeFacts(h *Heap, v Val) string {
	switch v.K {
	case KInt:
		return rangeFact(v.T, v.Typ)
	case KRef:
		if v.Typ == nil {
			return vc.knownRefT(h, v.T, types.Typ[types.Int])
		}
		// address space: an object lies entirely above 0 or entirely below 0
		// (struct-typed slice elements), so interior references are never nil
		size := int64(1)
		if p, ok := v.Typ.Underlying().(*types.Pointer); ok {
			size = structSize(p.Elem())
		}
		return sAnd(vc.knownRefT(h, v.T, v.Typ), sOr(sLe("0", v.T), sLe(sAdd(v.T, sNum(size)), "0")))
	case KPtr:
		if v.T != "" {
			return vc.knownRefT(h, v.T, types.Typ[types.Int])
		}
	case KSlice:
		return sAnd(vc.knownRefT(h, "(s-arr "+v.T+")", types.Typ[types.Int]),
			sLe("0", "(s-off "+v.T+")"), sLe("0", "(s-len "+v.T+")"),
			sLe("(s-len "+v.T+")", "(s-cap "+v.T+")"),
			sLe(sAdd("(s-off "+v.T+")", "(s-cap "+v.T+")"), maxLenStr),
			sImp(sEq("(s-arr "+v.T+")", "0"), sEq("(s-cap "+v.T+")", "0")),
			sLe("0", "(s-arr "+v.T+")"))
	case KStr:
		return sLe(sApp("slen", v.T), maxLenStr)
	case KIface:
		return sAnd(sLe("0", "(i-tag "+v.T+")"), sImp(sEq("(i-tag "+v.T+")", "0"), sEq("(i-val "+v.T+")", "0")))
	case KStruct, KTuple:
		var fs []string
		for _, f := range v.Fields {
			fs = append(fs, vc.typeFacts(h, f))
		}
		return sAnd(fs...)
	}
	return "true"
}

// maxLenStr: assumed upper bound of any slice/string length (address space).
const maxLenStr = "281474976710656" // 2^48
