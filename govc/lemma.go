package main

import (
	"fmt"
	"go/types"
)

// lemmaVC: a lemma is a heap-free VC: parameters are constants, requires are
// assumed, `use` instantiates other lemmas (their requires become
// obligations), `by induction on k` adds the induction hypothesis for k-1.
func (w *World) lemmaVC(l *Lemma) (vc *VC, err error) {
	vc = newVC(w, "lemma "+l.Name)
	defer func() {
		if r := recover(); r != nil {
			if ve, ok := r.(vcError); ok {
				err = fmt.Errorf("lemma %s: %s", l.Name, ve.msg)
				return
			}
			panic(r)
		}
	}()
	var pkg *types.Package
	for path, cf := range w.cfiles {
		for _, x := range cf.Lemmas {
			if x == l {
				pkg = w.tpkgs[path]
			}
		}
	}
	globalEpoch++
	heap := newHeap(globalEpoch) // lemmas hold for an arbitrary heap
	ec := &evalCtx{vc: vc, env: map[string]Val{}, pkg: pkg, heap: heap}
	for _, p := range l.Params {
		v, sort, guard := ec.boundVar("l$"+p.Name, p.Type)
		vc.declConst(v.T, sort)
		vc.fact(guard, "")
		ec.env[p.Name] = v
	}
	for _, c := range l.Requires {
		vc.fact(ec.evalBool(c.E), "requires")
	}
	// uses
	for i, u := range l.Uses {
		call, ok := u.(*ECall)
		if !ok {
			panic(vcErrorf("use: expected lemma application"))
		}
		other, ok := w.lemmas[call.Fn]
		if !ok {
			panic(vcErrorf("use: unknown lemma %s", call.Fn))
		}
		if len(call.Args) != len(other.Params) {
			panic(vcErrorf("use %s: arity", call.Fn))
		}
		env := map[string]Val{}
		for j, p := range other.Params {
			env[p.Name] = ec.eval(call.Args[j])
		}
		sub := &evalCtx{vc: vc, env: env, pkg: pkg, heap: heap}
		var reqs []string
		for _, c := range other.Requires {
			reqs = append(reqs, sub.evalBool(c.E))
		}
		vc.oblig(fmt.Sprintf("lemma %s#use%d:%s.requires", l.Name, i+1, call.Fn), "pre", sAnd(reqs...), "precondition of used lemma "+call.Fn)
		for _, c := range other.Ensures {
			vc.fact(sub.evalBool(c.E), "")
		}
	}
	if l.Induct != "" {
		k, ok := ec.env[l.Induct]
		if !ok {
			panic(vcErrorf("induction variable %s is not a parameter", l.Induct))
		}
		vc.oblig("lemma "+l.Name+"#induction:nonneg", "pre", sLe("0", k.T), "induction variable is non-negative under the preconditions")
		env := map[string]Val{}
		for n, v := range ec.env {
			env[n] = v
		}
		env[l.Induct] = Val{K: KInt, T: sSub(k.T, "1"), Typ: k.Typ}
		sub := &evalCtx{vc: vc, env: env, pkg: pkg, heap: heap}
		var reqs, ens []string
		for _, c := range l.Requires {
			reqs = append(reqs, sub.evalBool(c.E))
		}
		for _, c := range l.Ensures {
			ens = append(ens, sub.evalBool(c.E))
		}
		vc.fact(sImp(sLt("0", k.T), sImp(sAnd(reqs...), sAnd(ens...))), "induction hypothesis")
	}
	for _, c := range l.Ensures {
		vc.oblig("lemma "+l.Name+"#ensures:"+c.Label, "ensures", ec.evalBool(c.E), "lemma conclusion: "+c.Text)
	}
	return vc, nil
}
