package main

import (
	"fmt"
	"go/token"
	"go/types"
	"math/big"
	"strings"

	"golang.org/x/tools/go/ssa"
)

func (tr *FnTrans) instr(in ssa.Instruction) {
	vc := tr.vc
	switch x := in.(type) {
	case *ssa.DebugRef:
		return
	case *ssa.Alloc:
		et := x.Type().Underlying().(*types.Pointer).Elem()
		ref := vc.alloc(tr.cur)
		switch kindOf(et) {
		case KStruct:
			if isPrivateAlloc(x) {
				vc.localPrefix[ref] = fmt.Sprintf("%s.%s", x.Name(), x.Comment)
			}
			vc.storeStruct(tr.cur, et, ref, vc.zero(et))
			tr.vals[x] = Val{K: KRef, T: ref, Typ: x.Type()}
		case KOpaque:
			if at, ok := et.Underlying().(*types.Array); ok {
				// fixed array object: elements live in the element component
				v := Val{K: KRef, T: ref, Typ: x.Type(), Known: int(at.Len()) + 1}
				if kindOf(at.Elem()) != KStruct {
					comp := vc.elemComp(at.Elem())
					z := vc.zero(at.Elem())
					_, es := splitArrSort(vc.compSort[comp])
					c := vc.hget(tr.cur, comp)
					n := vc.fresh(comp+"@s", vc.compSort[comp])
					vc.fact(sEq(n, sSto(c, ref, tr.constArray(es, z.T))), "")
					tr.cur.m[comp] = n
				}
				tr.vals[x] = v
				return
			}
			fallthrough
		default:
			comp := vc.cellComp(et)
			loc := &Loc{Comp: comp, Sort: vc.scalarSort(et), Idx: ref}
			vc.storeLoc(tr.cur, loc, vc.zero(et).T)
			tr.vals[x] = Val{K: KPtr, T: ref, Typ: x.Type(), Loc: loc}
		}
	case *ssa.FieldAddr:
		base := tr.val(x.X)
		if base.K != KRef {
			panic(vcErrorf("field address of %v value", base.K))
		}
		switch x.X.(type) {
		case *ssa.FieldAddr, *ssa.IndexAddr, *ssa.Alloc:
			// interior address of an object that was already dereferenced / fresh object: never nil
		default:
			tr.oblig("nil", "", sNot(sEq(base.T, "0")), "nil dereference at "+tr.posStr(x.Pos()))
		}
		tr.vals[x] = vc.fieldOf(base.Typ, x.Field, base.T)
	case *ssa.Field:
		base := tr.val(x.X)
		tr.vals[x] = base.Fields[x.Field]
	case *ssa.IndexAddr:
		base := tr.val(x.X)
		idx := tr.val(x.Index)
		switch base.K {
		case KSlice:
			et := sliceElem(base.Typ)
			tr.oblig("index", "", sAnd(sLe("0", idx.T), sLt(idx.T, "(s-len "+base.T+")")), "index out of range at "+tr.posStr(x.Pos()))
			i := sAdd("(s-off "+base.T+")", idx.T)
			if kindOf(et) == KStruct {
				tr.define(x, Val{K: KRef, T: vc.elemRef(et, "(s-arr "+base.T+")", i), Typ: x.Type()})
			} else {
				tr.vals[x] = Val{K: KPtr, Typ: x.Type(), Loc: &Loc{Comp: vc.elemComp(et), Sort: vc.scalarSort(et), Idx: "(s-arr " + base.T + ")", Idx2: i}}
			}
		case KRef: // pointer to array
			at := base.Typ.Underlying().(*types.Pointer).Elem().Underlying().(*types.Array)
			tr.oblig("index", "", sAnd(sLe("0", idx.T), sLt(idx.T, sNum(at.Len()))), "index out of range at "+tr.posStr(x.Pos()))
			if kindOf(at.Elem()) == KStruct {
				tr.define(x, Val{K: KRef, T: vc.elemRef(at.Elem(), base.T, idx.T), Typ: x.Type()})
			} else {
				tr.vals[x] = Val{K: KPtr, Typ: x.Type(), Loc: &Loc{Comp: vc.elemComp(at.Elem()), Sort: vc.scalarSort(at.Elem()), Idx: base.T, Idx2: idx.T}}
			}
		default:
			panic(vcErrorf("index address of %v", base.K))
		}
	case *ssa.Index:
		base := tr.val(x.X)
		idx := tr.val(x.Index)
		if base.K == KStr {
			tr.oblig("index", "", sAnd(sLe("0", idx.T), sLt(idx.T, sApp("slen", base.T))), "string index out of range at "+tr.posStr(x.Pos()))
			tr.define(x, Val{K: KInt, T: sApp("sat", base.T, idx.T), Typ: x.Type()})
			return
		}
		panic(vcErrorf("index of %v value", base.K))
	case *ssa.UnOp:
		tr.unop(x)
	case *ssa.Store:
		addr := tr.val(x.Addr)
		v := tr.val(x.Val)
		tr.lockCheck(x.Addr, true, x.Pos())
		switch addr.K {
		case KPtr:
			if v.K == KPtr && v.T == "" {
				panic(vcErrorf("storing a non-first-class pointer"))
			}
			vc.storeLoc(tr.cur, addr.Loc, v.T)
		case KRef:
			vc.storeStruct(tr.cur, addr.Typ, addr.T, v)
		default:
			panic(vcErrorf("store through %v", addr.K))
		}
	case *ssa.BinOp:
		tr.binop(x)
	case *ssa.Phi:
		return
	case *ssa.Convert:
		tr.convert(x)
	case *ssa.ChangeType:
		v := tr.val(x.X)
		v.Typ = x.Type()
		tr.vals[x] = v
	case *ssa.ChangeInterface:
		v := tr.val(x.X)
		v.Typ = x.Type()
		tr.vals[x] = v
	case *ssa.MakeInterface:
		v := tr.val(x.X)
		tag := vc.tagOf(x.X.Type())
		var payload string
		switch v.K {
		case KInt, KRef, KOpaque:
			payload = v.T
		case KBool:
			payload = sIte(v.T, "1", "0")
		case KStr:
			payload = sApp("box$Str", v.T)
		case KPtr:
			if v.T == "" {
				panic(vcErrorf("boxing a non-first-class pointer"))
			}
			payload = v.T
		default:
			payload = vc.fresh("box", sortInt)
		}
		tr.define(x, Val{K: KIface, T: fmt.Sprintf("(mk-iface %d %s)", tag, payload), Typ: x.Type()})
	case *ssa.TypeAssert:
		tr.typeAssert(x)
	case *ssa.Extract:
		t := tr.val(x.Tuple)
		tr.vals[x] = t.Fields[x.Index]
	case *ssa.Slice:
		tr.sliceOp(x)
	case *ssa.MakeSlice:
		l := tr.val(x.Len)
		c := tr.val(x.Cap)
		tr.oblig("negmake", "", sAnd(sLe("0", l.T), sLe(l.T, c.T), sLe(c.T, maxLenStr)), "make: length out of range at "+tr.posStr(x.Pos()))
		arr := vc.alloc(tr.cur)
		et := sliceElem(x.Type())
		if kindOf(et) != KStruct {
			comp := vc.elemComp(et)
			_, es := splitArrSort(vc.compSort[comp])
			cv := vc.hget(tr.cur, comp)
			n := vc.fresh(comp+"@s", vc.compSort[comp])
			vc.fact(sEq(n, sSto(cv, arr, tr.constArray(es, vc.zero(et).T))), "")
			tr.cur.m[comp] = n
		}
		tr.define(x, Val{K: KSlice, T: fmt.Sprintf("(mk-slice %s 0 %s %s)", arr, l.T, c.T), Typ: x.Type()})
	case *ssa.MakeMap:
		m := vc.alloc(tr.cur)
		mh, _, ml, mt := vc.mapComps(x.Type())
		ks := mapKeySort(vc, mt)
		h := vc.hget(tr.cur, mh)
		n := vc.fresh(mh+"@s", vc.compSort[mh])
		vc.fact(sEq(n, sSto(h, m, fmt.Sprintf("((as const (Array %s Bool)) false)", ks))), "")
		tr.cur.m[mh] = n
		vc.storeLoc(tr.cur, &Loc{Comp: ml, Idx: m}, "0")
		tr.vals[x] = Val{K: KRef, T: m, Typ: x.Type()}
	case *ssa.MakeChan:
		c := vc.alloc(tr.cur)
		tr.vals[x] = Val{K: KRef, T: c, Typ: x.Type()}
	case *ssa.MakeClosure:
		c := vc.alloc(tr.cur)
		fn := x.Fn.(*ssa.Function)
		fid := tr.val(fn)
		vc.declFun("closure_fn", []string{sortInt}, sortInt)
		tr.fact(sEq(sApp("closure_fn", c), fid.T))
		for i, b := range x.Bindings {
			bv := tr.val(b)
			if bv.K == KPtr && bv.T == "" {
				panic(vcErrorf("closure captures a non-first-class pointer"))
			}
			if bv.K == KStruct {
				continue
			}
			f := qsym(fmt.Sprintf("closure_bind%d", i))
			vc.declFun(f, []string{sortInt}, kindSort(bv.K))
			tr.fact(sEq(sApp(f, c), bv.T))
		}
		tr.vals[x] = Val{K: KRef, T: c, Typ: x.Type()}
		// the closure's preconditions must hold when it is created (its free
		// variables are bound now; they are assumed not to be reassigned later)
		if cfc := tr.w.contractFor(fn); cfc != nil && !tr.scan && len(cfc.Requires) > 0 {
			env := map[string]Val{}
			for i, fv := range fn.FreeVars {
				env[fv.Name()] = tr.val(x.Bindings[i])
			}
			ec := &evalCtx{vc: vc, env: env, heap: tr.cur, old: tr.cur, pkg: tr.pkg, entryAlloc: vc.hget(tr.cur, compAlloc)}
			ok := true
			for _, cl := range cfc.Requires {
				if strings.HasPrefix(cl.Label, "param-") {
					continue // concerns the closure's own parameters
				}
				func() {
					defer func() {
						if r := recover(); r != nil {
							if _, isVC := r.(vcError); isVC {
								ok = false
								return
							}
							panic(r)
						}
					}()
					tr.oblig("closure-pre", relName(fn)+"."+cl.Label, ec.evalBool(cl.E), "precondition of closure "+relName(fn)+" holds where it is created: "+cl.Text)
				}()
			}
			_ = ok
			vc.assume("variables captured by a closure are not reassigned after the closure is created")
		}
	case *ssa.Lookup:
		tr.lookup(x)
	case *ssa.MapUpdate:
		m := tr.val(x.Map)
		k := tr.val(x.Key)
		v := tr.val(x.Value)
		tr.oblig("nilmap", "", sNot(sEq(m.T, "0")), "assignment to entry in nil map at "+tr.posStr(x.Pos()))
		tr.lockCheck(x.Map, true, x.Pos())
		vt := v.T
		if v.K == KStruct && len(v.Fields) == 0 {
			vt = "0" // map[K]struct{}
		}
		tr.mapStore(m, k.T, vt, true)
	case *ssa.Range:
		tr.rangeInit(x)
	case *ssa.Next:
		tr.rangeNext(x)
	case *ssa.Call:
		r := tr.call(&x.Call, x, x.Pos())
		if x.Type() != nil {
			if tp, ok := x.Type().(*types.Tuple); ok && tp.Len() == 0 {
				return
			}
		}
		tr.vals[x] = r
	case *ssa.Defer:
		var args []Val
		for _, a := range x.Call.Args {
			args = append(args, tr.val(a))
		}
		if x.Call.IsInvoke() {
			args = append([]Val{tr.val(x.Call.Value)}, args...)
		}
		// a ghost flag records that the defer statement was executed; at
		// RunDefers the call happens under that flag
		flag := fmt.Sprintf("D$defer%d", len(tr.defers))
		vc.compDecl(flag, sortBool)
		tr.cur.m[flag] = "true"
		tr.defers = append(tr.defers, deferInfo{block: tr.curBlock, call: x, args: args, flag: flag})
	case *ssa.RunDefers:
		for i := len(tr.defers) - 1; i >= 0; i-- {
			d := tr.defers[i]
			if li := tr.inLoop(d.block); li != nil && !li.blocks[tr.curBlock.Index] {
				panic(vcErrorf("defer inside a loop is not supported"))
			}
			if d.block.Dominates(tr.curBlock) {
				tr.callWith(&d.call.Call, d.call, d.call.Pos(), d.args)
				continue
			}
			// conditional defer: executed iff the defer statement was reached
			flag, ok := tr.cur.m[d.flag]
			if !ok || flag == "false" {
				continue // not executed on any path to this exit
			}
			save := tr.curReach
			before := tr.cur.clone()
			tr.curReach = sAnd(save, flag)
			tr.callWith(&d.call.Call, d.call, d.call.Pos(), d.args)
			after := tr.cur
			tr.curReach = save
			tr.cur = tr.mergeHeaps([]string{flag, "true"}, []*Heap{after, before})
		}
	case *ssa.Go:
		tr.goStmt(x)
	case *ssa.Send:
		tr.send(x)
	case *ssa.Select:
		tr.selectOp(x)
	case *ssa.Jump:
		tr.setEdge(tr.curBlock, tr.curBlock.Succs[0], tr.curReach)
	case *ssa.If:
		c := tr.val(x.Cond)
		tr.setEdge(tr.curBlock, tr.curBlock.Succs[0], sAnd(tr.curReach, c.T))
		tr.setEdge(tr.curBlock, tr.curBlock.Succs[1], sAnd(tr.curReach, sNot(c.T)))
	case *ssa.Return:
		var rs []Val
		for _, r := range x.Results {
			rs = append(rs, tr.val(r))
		}
		tr.returns = append(tr.returns, retInfo{cond: tr.curReach, results: rs, heap: tr.cur})
	case *ssa.Panic:
		tr.oblig("panic", "", "false", "explicit panic reachable at "+tr.posStr(x.Pos()))
	default:
		panic(vcErrorf("unsupported instruction %T (%s)", in, in))
	}
}

func (tr *FnTrans) inLoop(b *ssa.BasicBlock) *loopInfo {
	for _, li := range tr.loops {
		if li.blocks[b.Index] {
			return li
		}
	}
	return nil
}

// ---------------------------------------------------------------- lock discipline

func (tr *FnTrans) lockCheck(addr ssa.Value, write bool, pos token.Pos) {
	fa, ok := addr.(*ssa.FieldAddr)
	var owner ssa.Value
	var ownerT types.Type
	var fname string
	if ok {
		owner = fa.X
		ownerT = fa.X.Type()
		fname = structOf(ownerT).Field(fa.Field).Name()
	} else {
		// map update / lookup: the map value was loaded from a guarded field
		un, ok2 := addr.(*ssa.UnOp)
		if !ok2 {
			return
		}
		fa2, ok3 := un.X.(*ssa.FieldAddr)
		if !ok3 {
			return
		}
		owner = fa2.X
		ownerT = fa2.X.Type()
		fname = structOf(ownerT).Field(fa2.Field).Name()
	}
	mu, guarded := tr.w.guarded[fullFieldName(ownerT, fname)]
	if !guarded {
		return
	}
	// mutex field of the same object
	s := structOf(ownerT)
	mname := mu[strings.LastIndex(mu, ".")+1:]
	mi := fieldIndex(s, mname)
	if mi < 0 {
		panic(vcErrorf("guarded_by: no mutex field %s", mname))
	}
	ov := tr.val(owner)
	mref := tr.vc.embRef(ownerT, mi, ov.T)
	tr.vc.compDecl(ghostComp("held"), arrSort(sortInt, sortInt))
	held := sSel(tr.vc.hget(tr.cur, ghostComp("held")), mref)
	need := sLe("1", held)
	what := "read"
	if write {
		need = sEq(held, "2")
		what = "write"
	}
	tr.oblig("lock", "", sOr(sLe(tr.entryAlloc, ov.T), need), fmt.Sprintf("%s of guarded field %s without holding %s at %s", what, fname, mname, tr.posStr(pos)))
}

// ---------------------------------------------------------------- operators

func (tr *FnTrans) unop(x *ssa.UnOp) {
	vc := tr.vc
	v := tr.val(x.X)
	switch x.Op {
	case token.MUL:
		tr.lockCheck(x.X, false, x.Pos())
		switch v.K {
		case KPtr:
			if v.Loc == nil {
				panic(vcErrorf("load through pointer without location"))
			}
			if v.T != "" {
				tr.oblig("nil", "", sNot(sEq(v.T, "0")), "nil dereference at "+tr.posStr(x.Pos()))
			}
			r := scalarVal(x.Type(), vc.loadLoc(tr.cur, v.Loc))
			if r.K == KPtr {
				et := x.Type().Underlying().(*types.Pointer).Elem()
				n := vc.fresh(tr.ssaName(x), sortInt)
				vc.fact(sEq(n, r.T), "")
				r = Val{K: KPtr, T: n, Typ: x.Type(), Loc: &Loc{Comp: vc.cellComp(et), Sort: vc.scalarSort(et), Idx: n}}
				tr.vals[x] = r
			} else {
				tr.define(x, r)
				r = tr.vals[x]
			}
			tr.fact(vc.typeFacts(tr.cur, r))
			if g, ok := x.X.(*ssa.Global); ok && r.K == KIface && g.Pkg != nil && !strings.HasPrefix(g.Pkg.Pkg.Path(), modPath) && types.Identical(x.Type(), types.Universe.Lookup("error").Type()) {
				// error sentinels of dependencies (io.EOF, tomb.ErrDying ...) are non-nil
				tr.fact(sNot(sEq("(i-tag "+r.T+")", "0")))
				vc.assume("error sentinel of a dependency is non-nil: " + g.Pkg.Pkg.Path() + "." + g.Name())
			}
		case KRef:
			tr.oblig("nil", "", sNot(sEq(v.T, "0")), "nil dereference at "+tr.posStr(x.Pos()))
			r := vc.loadStruct(tr.cur, v.Typ, v.T)
			tr.vals[x] = tr.nameStruct(x, r)
			tr.fact(vc.typeFacts(tr.cur, tr.vals[x]))
		default:
			panic(vcErrorf("load through %v", v.K))
		}
	case token.NOT:
		tr.define(x, Val{K: KBool, T: sNot(v.T), Typ: x.Type()})
	case token.SUB:
		tr.arith(x, x.Type(), "(- "+v.T+")", x.Pos())
	case token.XOR:
		_, hi, _, signed, ok := intRange(x.Type())
		if !ok || signed {
			tr.define(x, Val{K: KInt, T: "(- (- " + v.T + ") 1)", Typ: x.Type()})
		} else {
			tr.define(x, Val{K: KInt, T: sSub(sBig(hi), v.T), Typ: x.Type()})
		}
	case token.ARROW:
		tr.recv(x, v)
	default:
		panic(vcErrorf("unsupported unary operator %s", x.Op))
	}
}

func (tr *FnTrans) nameStruct(v ssa.Value, s Val) Val {
	out := Val{K: s.K, Typ: s.Typ}
	for i, f := range s.Fields {
		if f.K == KStruct {
			out.Fields = append(out.Fields, tr.nameStruct(v, f))
			continue
		}
		if f.K != KPtr && !isSimpleTerm(f.T) {
			n := tr.vc.fresh(fmt.Sprintf("%s.%d", tr.ssaName(v), i), kindSort(f.K))
			tr.vc.fact(sEq(n, f.T), "")
			f.T = n
		}
		out.Fields = append(out.Fields, f)
	}
	return out
}

// arith finishes an integer operation: wrap (unsigned or wrapping mode) or
// no-overflow obligation (signed).
func (tr *FnTrans) arith(v ssa.Value, t types.Type, term string, pos token.Pos) {
	lo, hi, bits, signed, ok := intRange(t)
	if !ok {
		tr.define(v, Val{K: kindOf(t), T: term, Typ: t})
		return
	}
	if !signed {
		tr.define(v, Val{K: KInt, T: "(mod " + term + " " + pow2(bits).String() + ")", Typ: t})
		return
	}
	if bo, ok := v.(*ssa.BinOp); ok && (tr.unmodelled[bo.X] || tr.unmodelled[bo.Y]) {
		// arithmetic on a value that is not modelled (derived from a float):
		// the result is an arbitrary value of the type; Go wraps silently
		r := tr.freshVal(tr.ssaName(v), t)
		tr.fact(tr.vc.typeFacts(tr.cur, r))
		tr.vals[v] = r
		tr.unmodelled[v] = true
		tr.vc.assume("integer arithmetic on values converted from floating point is not modelled (result arbitrary)")
		return
	}
	if tr.wrapping {
		if bits == 64 {
			tr.define(v, Val{K: KInt, T: "(wrap64 " + term + ")", Typ: t})
		} else {
			m := pow2(bits).String()
			h := pow2(bits - 1).String()
			tr.define(v, Val{K: KInt, T: fmt.Sprintf("(- (mod (+ %s %s) %s) %s)", term, h, m, h), Typ: t})
		}
		return
	}
	n := tr.vc.fresh(tr.ssaName(v), sortInt)
	tr.vc.fact(sEq(n, term), "")
	tr.oblig("nowrap", "", sAnd(sLe(sBig(lo), n), sLe(n, sBig(hi))), "integer overflow at "+tr.posStr(pos))
	tr.vals[v] = Val{K: KInt, T: n, Typ: t}
}

func constOf(v ssa.Value) (*big.Int, bool) {
	c, ok := v.(*ssa.Const)
	if !ok || c.Value == nil {
		return nil, false
	}
	if kindOf(c.Type()) != KInt {
		return nil, false
	}
	bi, ok := new(big.Int).SetString(c.Value.ExactString(), 10)
	return bi, ok
}

func bitsOf(c *big.Int, width uint) []uint {
	var out []uint
	for k := uint(0); k < width; k++ {
		if c.Bit(int(k)) == 1 {
			out = append(out, k)
		}
	}
	return out
}

func sBit(x string, k uint) string { return "(bit " + x + " " + pow2(k).String() + ")" }

func (tr *FnTrans) bitAnd(x string, c *big.Int, width uint) string {
	// low mask 2^k-1
	if new(big.Int).Add(c, big.NewInt(1)).BitLen() == c.BitLen()+1 && c.Sign() > 0 {
		// c = 2^n - 1 ?
		n := c.BitLen()
		if new(big.Int).Sub(pow2(uint(n)), big.NewInt(1)).Cmp(c) == 0 {
			return "(mod " + x + " " + pow2(uint(n)).String() + ")"
		}
	}
	set := bitsOf(c, width)
	if len(set) <= int(width)/2 {
		if len(set) == 0 {
			return "0"
		}
		var ts []string
		for _, k := range set {
			ts = append(ts, "(* "+pow2(k).String()+" "+sBit(x, k)+")")
		}
		if len(ts) == 1 {
			return ts[0]
		}
		return "(+ " + strings.Join(ts, " ") + ")"
	}
	// few cleared bits
	term := x
	for k := uint(0); k < width; k++ {
		if c.Bit(int(k)) == 0 {
			term = "(- " + term + " (* " + pow2(k).String() + " " + sBit(x, k) + "))"
		}
	}
	return term
}

func (tr *FnTrans) bitOrConst(x string, c *big.Int, width uint) string {
	term := x
	for _, k := range bitsOf(c, width) {
		term = "(+ " + term + " (* " + pow2(k).String() + " (- 1 " + sBit(x, k) + ")))"
	}
	return term
}

func (tr *FnTrans) bitGeneric(op token.Token, a, b string, width uint, ma, mb uint64) string {
	var ts []string
	for k := uint(0); k < width; k++ {
		ba, bb := sBit(a, k), sBit(b, k)
		ha, hb := ma&(1<<k) != 0, mb&(1<<k) != 0
		var r string
		switch op {
		case token.AND:
			if !ha || !hb {
				continue
			}
			r = "(ite (= (+ " + ba + " " + bb + ") 2) 1 0)"
		case token.OR:
			switch {
			case !ha && !hb:
				continue
			case !hb:
				r = ba
			case !ha:
				r = bb
			default:
				r = "(ite (>= (+ " + ba + " " + bb + ") 1) 1 0)"
			}
		case token.XOR:
			switch {
			case !ha && !hb:
				continue
			case !hb:
				r = ba
			case !ha:
				r = bb
			default:
				r = "(ite (= (+ " + ba + " " + bb + ") 1) 1 0)"
			}
		case token.AND_NOT:
			switch {
			case !ha:
				continue
			case !hb:
				r = ba
			default:
				r = "(ite (and (= " + ba + " 1) (= " + bb + " 0)) 1 0)"
			}
		}
		ts = append(ts, "(* "+pow2(k).String()+" "+r+")")
	}
	if len(ts) == 0 {
		return "0"
	}
	if len(ts) == 1 {
		return ts[0]
	}
	return "(+ " + strings.Join(ts, " ") + ")"
}

func (tr *FnTrans) binop(x *ssa.BinOp) {
	a, b := tr.val(x.X), tr.val(x.Y)
	t := x.Type()
	switch x.Op {
	case token.EQL, token.NEQ:
		var r string
		switch {
		case a.K == KStruct:
			ec := &evalCtx{vc: tr.vc}
			r = ec.eqVals(a, b)
		case a.K == KPtr || b.K == KPtr:
			if a.T == "" || b.T == "" {
				panic(vcErrorf("comparison of non-first-class pointers"))
			}
			r = sEq(a.T, b.T)
		case a.K == KIface && isNilConst(x.Y):
			r = sEq("(i-tag "+a.T+")", "0")
		case b.K == KIface && isNilConst(x.X):
			r = sEq("(i-tag "+b.T+")", "0")
		case a.K == KSlice && isNilConst(x.Y):
			r = sEq("(s-arr "+a.T+")", "0")
		case a.K == KOpaque:
			r = tr.vc.fresh("fcmp", sortBool)
		default:
			r = sEq(a.T, b.T)
		}
		if x.Op == token.NEQ {
			r = sNot(r)
		}
		tr.define(x, Val{K: KBool, T: r, Typ: t})
		return
	case token.LSS, token.LEQ, token.GTR, token.GEQ:
		if a.K == KStr || a.K == KOpaque {
			tr.define(x, Val{K: KBool, T: tr.vc.fresh("cmp", sortBool), Typ: t})
			return
		}
		op := map[token.Token]string{token.LSS: "<", token.LEQ: "<=", token.GTR: ">", token.GEQ: ">="}[x.Op]
		tr.define(x, Val{K: KBool, T: "(" + op + " " + a.T + " " + b.T + ")", Typ: t})
		return
	}
	if a.K == KStr { // concatenation
		n := tr.vc.fresh("concat", sortStr)
		tr.fact(sEq(sApp("slen", n), sAdd(sApp("slen", a.T), sApp("slen", b.T))))
		tr.vals[x] = Val{K: KStr, T: n, Typ: t}
		return
	}
	if a.K == KOpaque || b.K == KOpaque {
		tr.vals[x] = Val{K: KOpaque, T: tr.vc.fresh("flt", sortInt), Typ: t}
		return
	}
	_, _, bits, signed, _ := intRange(t)
	switch x.Op {
	case token.ADD:
		tr.arith(x, t, "(+ "+a.T+" "+b.T+")", x.Pos())
	case token.SUB:
		tr.arith(x, t, "(- "+a.T+" "+b.T+")", x.Pos())
	case token.MUL:
		tr.arith(x, t, "(* "+a.T+" "+b.T+")", x.Pos())
	case token.QUO:
		tr.oblig("divzero", "", sNot(sEq(b.T, "0")), "division by zero at "+tr.posStr(x.Pos()))
		if signed {
			// truncated division
			q := fmt.Sprintf("(ite (>= %s 0) (div %s %s) (- (div (- %s) %s)))", a.T, a.T, b.T, a.T, b.T)
			tr.arith(x, t, q, x.Pos())
		} else {
			tr.define(x, Val{K: KInt, T: "(div " + a.T + " " + b.T + ")", Typ: t})
		}
	case token.REM:
		tr.oblig("divzero", "", sNot(sEq(b.T, "0")), "division by zero at "+tr.posStr(x.Pos()))
		if signed {
			r := fmt.Sprintf("(ite (>= %s 0) (mod %s %s) (- (mod (- %s) %s)))", a.T, a.T, b.T, a.T, b.T)
			tr.define(x, Val{K: KInt, T: r, Typ: t})
		} else {
			tr.define(x, Val{K: KInt, T: "(mod " + a.T + " " + b.T + ")", Typ: t})
		}
	case token.SHL:
		c, ok := constOf(x.Y)
		if !ok || signed {
			panic(vcErrorf("unsupported shift (non-constant amount or signed operand)"))
		}
		tr.define(x, Val{K: KInt, T: "(mod (* " + a.T + " " + pow2(uint(c.Int64())).String() + ") " + pow2(bits).String() + ")", Typ: t})
		if bits < 64 {
			tr.setMask(x, (tr.maskOf(x.X)<<uint(c.Int64()))&((uint64(1)<<bits)-1))
		}
	case token.SHR:
		c, ok := constOf(x.Y)
		if !ok || signed {
			panic(vcErrorf("unsupported shift (non-constant amount or signed operand)"))
		}
		tr.define(x, Val{K: KInt, T: "(div " + a.T + " " + pow2(uint(c.Int64())).String() + ")", Typ: t})
		tr.setMask(x, tr.maskOf(x.X)>>uint(c.Int64()))
	case token.AND, token.OR, token.XOR, token.AND_NOT:
		if signed || bits > 16 {
			panic(vcErrorf("bit operation on %s is not supported", t))
		}
		ma, mb := tr.maskOf(x.X), tr.maskOf(x.Y)
		switch x.Op {
		case token.AND:
			tr.setMask(x, ma&mb)
		case token.OR, token.XOR:
			tr.setMask(x, ma|mb)
		default:
			tr.setMask(x, ma)
		}
		if (x.Op == token.OR || x.Op == token.XOR) && ma&mb == 0 {
			// no common possibly-set bit: or = xor = sum
			tr.define(x, Val{K: KInt, T: "(+ " + a.T + " " + b.T + ")", Typ: t})
			return
		}
		if c, ok := constOf(x.Y); ok && x.Op == token.AND {
			tr.define(x, Val{K: KInt, T: tr.bitAnd(a.T, c, bits), Typ: t})
		} else if c, ok := constOf(x.X); ok && x.Op == token.AND {
			tr.define(x, Val{K: KInt, T: tr.bitAnd(b.T, c, bits), Typ: t})
		} else if c, ok := constOf(x.Y); ok && x.Op == token.OR {
			tr.define(x, Val{K: KInt, T: tr.bitOrConst(a.T, c, bits), Typ: t})
		} else if c, ok := constOf(x.X); ok && x.Op == token.OR {
			tr.define(x, Val{K: KInt, T: tr.bitOrConst(b.T, c, bits), Typ: t})
		} else {
			tr.define(x, Val{K: KInt, T: tr.bitGeneric(x.Op, a.T, b.T, bits, ma, mb), Typ: t})
		}
	default:
		panic(vcErrorf("unsupported binary operator %s", x.Op))
	}
}

func isNilConst(v ssa.Value) bool {
	c, ok := v.(*ssa.Const)
	return ok && c.Value == nil
}

func (tr *FnTrans) convert(x *ssa.Convert) {
	vc := tr.vc
	v := tr.val(x.X)
	from, to := x.X.Type(), x.Type()
	kf, kt := kindOf(from), kindOf(to)
	switch {
	case kf == KInt && kt == KInt:
		_, _, bits, signed, _ := intRange(to)
		flo, fhi, _, _, _ := intRange(from)
		tlo, thi, _, _, _ := intRange(to)
		if flo.Cmp(tlo) >= 0 && fhi.Cmp(thi) <= 0 {
			tr.vals[x] = Val{K: KInt, T: v.T, Typ: to}
			return
		}
		m := pow2(bits).String()
		if !signed {
			tr.define(x, Val{K: KInt, T: "(mod " + v.T + " " + m + ")", Typ: to})
		} else if bits == 64 {
			tr.define(x, Val{K: KInt, T: "(wrap64 " + v.T + ")", Typ: to})
		} else {
			h := pow2(bits - 1).String()
			tr.define(x, Val{K: KInt, T: fmt.Sprintf("(- (mod (+ %s %s) %s) %s)", v.T, h, m, h), Typ: to})
		}
	case kf == KSlice && kt == KStr:
		comp := vc.elemComp(sliceElem(from))
		t := sApp("str_of", sSel(vc.hget(tr.cur, comp), "(s-arr "+v.T+")"), "(s-off "+v.T+")", "(s-len "+v.T+")")
		tr.define(x, Val{K: KStr, T: t, Typ: to})
	case kf == KStr && kt == KSlice:
		arr := vc.alloc(tr.cur)
		et := sliceElem(to)
		comp := vc.elemComp(et)
		inner := vc.fresh("bytes", "(Array Int Int)")
		tr.fact(fmt.Sprintf("(forall ((j Int)) (! (=> (and (<= 0 j) (< j (slen %s))) (= (select %s j) (sat %s j))) :pattern ((select %s j))))", v.T, inner, v.T, inner))
		tr.fact(fmt.Sprintf("(forall ((j Int)) (! (and (<= 0 (select %s j)) (<= (select %s j) 255)) :pattern ((select %s j))))", inner, inner, inner))
		c := vc.hget(tr.cur, comp)
		n := vc.fresh(comp+"@s", vc.compSort[comp])
		vc.fact(sEq(n, sSto(c, arr, inner)), "")
		tr.cur.m[comp] = n
		tr.define(x, Val{K: KSlice, T: fmt.Sprintf("(mk-slice %s 0 (slen %s) (slen %s))", arr, v.T, v.T), Typ: to})
	case kt == KOpaque || kf == KOpaque:
		r := tr.freshVal("conv", to)
		tr.fact(vc.typeFacts(tr.cur, r))
		tr.vals[x] = r
		if kt == KInt {
			// integer obtained from a float: its value is not modelled
			if tr.unmodelled == nil {
				tr.unmodelled = map[ssa.Value]bool{}
			}
			tr.unmodelled[x] = true
		}
	case kf == kt:
		v.Typ = to
		tr.vals[x] = v
	case kf == KInt && kt == KStr:
		tr.vals[x] = Val{K: KStr, T: vc.fresh("runestr", sortStr), Typ: to}
	default:
		panic(vcErrorf("unsupported conversion %s -> %s", from, to))
	}
}

func (tr *FnTrans) typeAssert(x *ssa.TypeAssert) {
	vc := tr.vc
	v := tr.val(x.X)
	var ok string
	var res Val
	if _, isIface := x.AssertedType.Underlying().(*types.Interface); isIface {
		// interface-to-interface: succeeds iff the dynamic type implements it
		p := qsym("impl$" + typeKey(x.AssertedType))
		vc.declFun(p, []string{sortInt}, sortBool)
		vc.decl("implnil:"+p, "(assert (not ("+p+" 0)))")
		if types.AssignableTo(x.X.Type(), x.AssertedType) {
			ok = sNot(sEq("(i-tag "+v.T+")", "0"))
		} else {
			ok = sApp(p, "(i-tag "+v.T+")")
		}
		res = Val{K: KIface, T: v.T, Typ: x.AssertedType}
	} else {
		tag := vc.tagOf(x.AssertedType)
		ok = sEq("(i-tag "+v.T+")", sNum(int64(tag)))
		res = scalarVal(x.AssertedType, "(i-val "+v.T+")")
		switch res.K {
		case KStr:
			res.T = sApp("unbox$Str", "(i-val "+v.T+")")
		case KBool:
			res.T = sEq("(i-val "+v.T+")", "1")
		case KStruct, KSlice, KIface:
			res = tr.freshVal("unboxed", x.AssertedType)
		case KPtr:
			et := x.AssertedType.Underlying().(*types.Pointer).Elem()
			res.Loc = &Loc{Comp: vc.cellComp(et), Sort: vc.scalarSort(et), Idx: res.T}
		}
	}
	if x.CommaOk {
		okn := vc.fresh(tr.ssaName(x)+".ok", sortBool)
		vc.fact(sEq(okn, ok), "")
		// on failure the value is the zero value
		z := vc.zero(x.AssertedType)
		rv := tr.iteVal(okn, res, z)
		if rv.K == KRef || rv.K == KInt || rv.K == KStr || rv.K == KIface {
			n := vc.fresh(tr.ssaName(x), kindSort(rv.K))
			vc.fact(sEq(n, rv.T), "")
			rv.T = n
		}
		tr.fact(vc.typeFacts(tr.cur, rv))
		tr.vals[x] = Val{K: KTuple, Fields: []Val{rv, {K: KBool, T: okn, Typ: types.Typ[types.Bool]}}}
		return
	}
	tr.oblig("typeassert", "", ok, fmt.Sprintf("type assertion to %s may fail at %s", typeKey(x.AssertedType), tr.posStr(x.Pos())))
	tr.define(x, res)
	tr.fact(vc.typeFacts(tr.cur, tr.vals[x]))
}

func (tr *FnTrans) sliceOp(x *ssa.Slice) {
	v := tr.val(x.X)
	lo := "0"
	if x.Low != nil {
		lo = tr.val(x.Low).T
	}
	switch v.K {
	case KSlice:
		hi := "(s-len " + v.T + ")"
		if x.High != nil {
			hi = tr.val(x.High).T
		}
		mx := "(s-cap " + v.T + ")"
		if x.Max != nil {
			mx = tr.val(x.Max).T
			tr.oblig("slice", "", sAnd(sLe("0", lo), sLe(lo, hi), sLe(hi, mx), sLe(mx, "(s-cap "+v.T+")")), "slice bounds out of range at "+tr.posStr(x.Pos()))
		} else {
			tr.oblig("slice", "", sAnd(sLe("0", lo), sLe(lo, hi), sLe(hi, "(s-cap "+v.T+")")), "slice bounds out of range at "+tr.posStr(x.Pos()))
		}
		tr.define(x, Val{K: KSlice, Typ: x.Type(), T: fmt.Sprintf("(mk-slice (s-arr %s) %s %s %s)", v.T, sAdd("(s-off "+v.T+")", lo), sSub(hi, lo), sSub(mx, lo))})
	case KStr:
		hi := sApp("slen", v.T)
		if x.High != nil {
			hi = tr.val(x.High).T
		}
		tr.oblig("slice", "", sAnd(sLe("0", lo), sLe(lo, hi), sLe(hi, sApp("slen", v.T))), "string slice bounds out of range at "+tr.posStr(x.Pos()))
		tr.define(x, Val{K: KStr, Typ: x.Type(), T: sApp("substr", v.T, lo, sSub(hi, lo))})
	case KRef: // pointer to array
		at := v.Typ.Underlying().(*types.Pointer).Elem().Underlying().(*types.Array)
		n := sNum(at.Len())
		hi := n
		if x.High != nil {
			hi = tr.val(x.High).T
		}
		tr.oblig("slice", "", sAnd(sLe("0", lo), sLe(lo, hi), sLe(hi, n)), "slice bounds out of range at "+tr.posStr(x.Pos()))
		r := Val{K: KSlice, Typ: x.Type(), T: fmt.Sprintf("(mk-slice %s %s %s %s)", v.T, lo, sSub(hi, lo), sSub(n, lo))}
		if x.Low == nil && x.High == nil {
			r.Known = int(at.Len()) + 1
		}
		tr.vals[x] = r
	default:
		panic(vcErrorf("slice of %v", v.K))
	}
}

// ---------------------------------------------------------------- maps

func (tr *FnTrans) lookup(x *ssa.Lookup) {
	vc := tr.vc
	m := tr.val(x.X)
	k := tr.val(x.Index)
	if m.K == KStr {
		tr.oblig("index", "", sAnd(sLe("0", k.T), sLt(k.T, sApp("slen", m.T))), "string index out of range at "+tr.posStr(x.Pos()))
		tr.define(x, Val{K: KInt, T: sApp("sat", m.T, k.T), Typ: x.Type()})
		return
	}
	tr.lockCheck(x.X, false, x.Pos())
	mh, mv, _, mt := vc.mapComps(m.Typ)
	has := sAnd(sNot(sEq(m.T, "0")), sSel(sSel(vc.hget(tr.cur, mh), m.T), k.T))
	hn := vc.fresh(tr.ssaName(x)+".has", sortBool)
	vc.fact(sEq(hn, has), "")
	if st, ok := mt.Elem().Underlying().(*types.Struct); ok && st.NumFields() == 0 {
		// map[K]struct{}: only presence matters
		ev := Val{K: KStruct, Typ: mt.Elem()}
		if x.CommaOk {
			tr.vals[x] = Val{K: KTuple, Fields: []Val{ev, {K: KBool, T: hn, Typ: types.Typ[types.Bool]}}}
		} else {
			tr.vals[x] = ev
		}
		return
	}
	z := vc.zero(mt.Elem())
	val := scalarVal(mt.Elem(), sIte(hn, sSel(sSel(vc.hget(tr.cur, mv), m.T), k.T), z.T))
	n := vc.fresh(tr.ssaName(x), kindSort(val.K))
	vc.fact(sEq(n, val.T), "")
	val.T = n
	if val.K == KPtr {
		et := mt.Elem().Underlying().(*types.Pointer).Elem()
		val.Loc = &Loc{Comp: vc.cellComp(et), Sort: vc.scalarSort(et), Idx: n}
	}
	tr.fact(vc.typeFacts(tr.cur, val))
	if x.CommaOk {
		tr.vals[x] = Val{K: KTuple, Fields: []Val{val, {K: KBool, T: hn, Typ: types.Typ[types.Bool]}}}
	} else {
		tr.vals[x] = val
	}
}

// mapStore sets (present=true) or deletes (present=false) key k of map m.
func (tr *FnTrans) mapStore(m Val, k, v string, present bool) {
	vc := tr.vc
	mh, mv, ml, _ := vc.mapComps(m.Typ)
	h := vc.hget(tr.cur, mh)
	had := sSel(sSel(h, m.T), k)
	l := vc.hget(tr.cur, ml)
	oldLen := sSel(l, m.T)
	pv := "false"
	if present {
		pv = "true"
	}
	n := vc.fresh(mh+"@s", vc.compSort[mh])
	vc.fact(sEq(n, sSto(h, m.T, sSto(sSel(h, m.T), k, pv))), "")
	tr.cur.m[mh] = n
	if present {
		vals := vc.hget(tr.cur, mv)
		n2 := vc.fresh(mv+"@s", vc.compSort[mv])
		vc.fact(sEq(n2, sSto(vals, m.T, sSto(sSel(vals, m.T), k, v))), "")
		tr.cur.m[mv] = n2
		vc.storeLoc(tr.cur, &Loc{Comp: ml, Idx: m.T}, sIte(had, oldLen, sAdd(oldLen, "1")))
	} else {
		vc.storeLoc(tr.cur, &Loc{Comp: ml, Idx: m.T}, sIte(had, sSub(oldLen, "1"), oldLen))
	}
}

// mapLenFacts relates len(m) to the key set when len(m) is observed.
func (tr *FnTrans) mapLenFacts(m Val) string {
	vc := tr.vc
	mh, _, ml, mt := vc.mapComps(m.Typ)
	ks := mapKeySort(vc, mt)
	h := vc.hget(tr.cur, mh)
	l := sSel(vc.hget(tr.cur, ml), m.T)
	tr.fact(sLe("0", l))
	tr.fact(fmt.Sprintf("(=> (= %s 0) (forall ((k %s)) (! (not (select (select %s %s) k)) :pattern ((select (select %s %s) k)))))", l, ks, h, m.T, h, m.T))
	tr.fact(fmt.Sprintf("(forall ((k %s)) (! (=> (select (select %s %s) k) (> %s 0)) :pattern ((select (select %s %s) k))))", ks, h, m.T, l, h, m.T))
	return l
}

// range over a map: ghost visited set; the body is entered for an arbitrary
// present, not yet visited key; the loop exits when every present key has
// been visited. No iteration order is available.
func (tr *FnTrans) rangeInit(x *ssa.Range) {
	vc := tr.vc
	v := tr.val(x.X)
	rs := &rangeState{mapVal: v}
	if v.K == KStr {
		panic(vcErrorf("range over string is not supported"))
	}
	_, _, _, mt := vc.mapComps(v.Typ)
	ks := mapKeySort(vc, mt)
	tr.counters["range"]++
	rs.done = fmt.Sprintf("R$done%d", tr.counters["range"])
	vc.compDecl(rs.done, arrSort(ks, sortBool))
	n := vc.fresh(rs.done+"@s", vc.compSort[rs.done])
	vc.fact(sEq(n, fmt.Sprintf("((as const (Array %s Bool)) false)", ks)), "")
	tr.cur.m[rs.done] = n
	tr.ranges[x] = rs
	tr.vals[x] = Val{K: KUnit}
}

func (tr *FnTrans) rangeNext(x *ssa.Next) {
	vc := tr.vc
	rs := tr.ranges[x.Iter]
	if rs == nil {
		panic(vcErrorf("next on unknown iterator"))
	}
	m := rs.mapVal
	mh, mv, _, mt := vc.mapComps(m.Typ)
	ks := mapKeySort(vc, mt)
	h := sSel(vc.hget(tr.cur, mh), m.T)
	done := vc.hget(tr.cur, rs.done)
	ok := vc.fresh(tr.ssaName(x)+".ok", sortBool)
	key := vc.fresh(tr.ssaName(x)+".k", ks)
	present := sAnd(sNot(sEq(m.T, "0")), sSel(h, key))
	// ok  => key present and not visited ; !ok => all present keys visited
	tr.fact(sImp(ok, sAnd(present, sNot(sSel(done, key)))))
	tr.fact(sImp(sNot(ok), sOr(sEq(m.T, "0"), fmt.Sprintf("(forall ((k %s)) (! (=> (select %s k) (select %s k)) :pattern ((select %s k))))", ks, h, done, h))))
	kv := scalarVal(mt.Key(), key)
	vv := scalarVal(mt.Elem(), sSel(sSel(vc.hget(tr.cur, mv), m.T), key))
	n := vc.fresh(tr.ssaName(x)+".v", kindSort(vv.K))
	vc.fact(sEq(n, vv.T), "")
	vv.T = n
	if vv.K == KPtr {
		et := mt.Elem().Underlying().(*types.Pointer).Elem()
		vv.Loc = &Loc{Comp: vc.cellComp(et), Sort: vc.scalarSort(et), Idx: n}
	}
	tr.fact(sImp(ok, sAnd(vc.typeFacts(tr.cur, kv), vc.typeFacts(tr.cur, vv))))
	// mark visited
	nd := vc.fresh(rs.done+"@s", vc.compSort[rs.done])
	vc.fact(sEq(nd, sIte(ok, sSto(done, key, "true"), done)), "")
	tr.cur.m[rs.done] = nd
	tr.vals[x] = Val{K: KTuple, Fields: []Val{{K: KBool, T: ok, Typ: types.Typ[types.Bool]}, kv, vv}}
}

// maskOf: statically known set of bits that may be 1 in an unsigned value.
func (tr *FnTrans) maskOf(v ssa.Value) uint64 {
	if c, ok := constOf(v); ok && c.IsUint64() {
		return c.Uint64()
	}
	if m, ok := tr.masks[v]; ok {
		return m
	}
	_, _, bits, _, ok := intRange(v.Type())
	if !ok || bits >= 64 {
		return ^uint64(0)
	}
	return (uint64(1) << bits) - 1
}

func (tr *FnTrans) setMask(v ssa.Value, m uint64) {
	if tr.masks == nil {
		tr.masks = map[ssa.Value]uint64{}
	}
	tr.masks[v] = m
}

// isPrivateAlloc: a stack-allocated struct variable whose address is only
// used for field access, whole loads and whole stores (never passed on,
// merged or compared). Its fields live in private components.
func isPrivateAlloc(x *ssa.Alloc) bool {
	if x.Heap {
		return false
	}
	var ok func(v ssa.Value, depth int) bool
	ok = func(v ssa.Value, depth int) bool {
		refs := v.Referrers()
		if refs == nil || depth > 4 {
			return false
		}
		for _, r := range *refs {
			switch u := r.(type) {
			case *ssa.DebugRef:
			case *ssa.Store:
				if u.Addr != v {
					return false
				}
			case *ssa.UnOp:
				if u.Op != token.MUL {
					return false
				}
			case *ssa.FieldAddr:
				if _, isStruct := u.Type().Underlying().(*types.Pointer).Elem().Underlying().(*types.Struct); isStruct {
					if !ok(u, depth+1) {
						return false
					}
				} else {
					// scalar field address: only loads and stores
					fr := u.Referrers()
					if fr == nil {
						return false
					}
					for _, q := range *fr {
						switch w := q.(type) {
						case *ssa.DebugRef:
						case *ssa.Store:
							if w.Addr != u {
								return false
							}
						case *ssa.UnOp:
							if w.Op != token.MUL {
								return false
							}
						default:
							return false
						}
					}
				}
			default:
				return false
			}
		}
		return true
	}
	return ok(x, 0)
}

// constArray: an array of sort es (Array Int V) whose every element is v.
// Defaults that are not SMT values (string constants) are expressed with a
// quantified axiom instead of (as const ...), which cvc5 rejects and which
// makes z3's array theory incomplete.
func (tr *FnTrans) constArray(es, v string) string {
	_, inner := splitArrSort(es)
	if inner != sortStr {
		return fmt.Sprintf("((as const %s) %s)", es, v)
	}
	a := tr.vc.fresh("zeroarr", es)
	tr.vc.fact(fmt.Sprintf("(forall ((j Int)) (! (= (select %s j) %s) :pattern ((select %s j))))", a, v, a), "")
	return a
}
