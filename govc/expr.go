package main

// Contract expression language: lexer + Pratt parser.
//
// Go expression syntax plus:  ==>  <==>  old(e)  fresh(e)  forall x T, y U :: e
// exists x T :: e   c ? a : b   {trigger, ...} after the binders of a quantifier.

import (
	"fmt"
	"math/big"
	"strings"
	"unicode"
)

type Expr interface{}

type EIdent struct{ Name string }
type EInt struct{ V *big.Int }
type EStr struct{ V string }
type EBool struct{ V bool }
type ENil struct{}
type EBin struct {
	Op   string
	L, R Expr
}
type EUn struct {
	Op string
	X  Expr
}
type ECall struct {
	Fn   string
	Args []Expr
}
type EIndex struct{ X, I Expr }
type ESlice struct{ X, Lo, Hi Expr }
type ESel struct {
	X    Expr
	Name string
}
type QVar struct{ Name, Type string }
type EQuant struct {
	All  bool
	Vars []QVar
	Trig [][]Expr
	Body Expr
}
type EIte struct{ C, A, B Expr }

type tok struct {
	kind string // ident int str op eof
	text string
	pos  int
}

type lexer struct {
	src  string
	toks []tok
	p    int
}

var ops3 = []string{"<==>", "==>", "::", "&&", "||", "==", "!=", "<=", ">=", "<<", ">>"}

func lex(src string) ([]tok, error) {
	var toks []tok
	i := 0
	for i < len(src) {
		c := src[i]
		if c == ' ' || c == '\t' || c == '\n' || c == '\r' {
			i++
			continue
		}
		if unicode.IsLetter(rune(c)) || c == '_' || c == '$' {
			j := i
			for j < len(src) && (unicode.IsLetter(rune(src[j])) || unicode.IsDigit(rune(src[j])) || src[j] == '_' || src[j] == '$') {
				j++
			}
			toks = append(toks, tok{"ident", src[i:j], i})
			i = j
			continue
		}
		if unicode.IsDigit(rune(c)) {
			j := i
			for j < len(src) && (unicode.IsDigit(rune(src[j])) || src[j] == 'x' || (src[j] >= 'a' && src[j] <= 'f') || (src[j] >= 'A' && src[j] <= 'F')) {
				j++
			}
			toks = append(toks, tok{"int", src[i:j], i})
			i = j
			continue
		}
		if c == '"' {
			j := i + 1
			var sb strings.Builder
			for j < len(src) && src[j] != '"' {
				if src[j] == '\\' && j+1 < len(src) {
					j++
					switch src[j] {
					case 'n':
						sb.WriteByte('\n')
					case 't':
						sb.WriteByte('\t')
					case 'x':
						var v int
						fmt.Sscanf(src[j+1:j+3], "%02x", &v)
						sb.WriteByte(byte(v))
						j += 2
					default:
						sb.WriteByte(src[j])
					}
					j++
					continue
				}
				sb.WriteByte(src[j])
				j++
			}
			if j >= len(src) {
				return nil, fmt.Errorf("unterminated string at %d", i)
			}
			toks = append(toks, tok{"str", sb.String(), i})
			i = j + 1
			continue
		}
		matched := false
		for _, o := range ops3 {
			if strings.HasPrefix(src[i:], o) {
				toks = append(toks, tok{"op", o, i})
				i += len(o)
				matched = true
				break
			}
		}
		if matched {
			continue
		}
		if strings.ContainsRune("+-*/%<>!()[]{},.:?&|^=", rune(c)) {
			toks = append(toks, tok{"op", string(c), i})
			i++
			continue
		}
		return nil, fmt.Errorf("unexpected character %q at %d in %q", c, i, src)
	}
	toks = append(toks, tok{"eof", "", len(src)})
	return toks, nil
}

type parser struct {
	toks []tok
	p    int
	src  string
}

func parseExpr(src string) (e Expr, err error) {
	toks, err := lex(src)
	if err != nil {
		return nil, err
	}
	ps := &parser{toks: toks, src: src}
	defer func() {
		if r := recover(); r != nil {
			if pe, ok := r.(parseError); ok {
				err = fmt.Errorf("%s in %q", string(pe), src)
				return
			}
			panic(r)
		}
	}()
	e = ps.expr(0)
	if ps.peek().kind != "eof" {
		ps.fail("unexpected %q", ps.peek().text)
	}
	return e, nil
}

type parseError string

func (ps *parser) fail(f string, a ...interface{}) {
	panic(parseError(fmt.Sprintf(f, a...) + fmt.Sprintf(" at offset %d", ps.peek().pos)))
}
func (ps *parser) peek() tok { return ps.toks[ps.p] }
func (ps *parser) next() tok { t := ps.toks[ps.p]; ps.p++; return t }
func (ps *parser) isOp(s string) bool {
	t := ps.peek()
	return t.kind == "op" && t.text == s
}
func (ps *parser) expect(s string) {
	if !ps.isOp(s) {
		ps.fail("expected %q, got %q", s, ps.peek().text)
	}
	ps.p++
}

// binding powers
var binPrec = map[string]int{
	"<==>": 1, "==>": 2, "?": 3, "||": 4, "&&": 5,
	"==": 6, "!=": 6, "<": 6, "<=": 6, ">": 6, ">=": 6,
	"+": 7, "-": 7, "|": 7, "^": 7,
	"*": 8, "/": 8, "%": 8, "<<": 8, ">>": 8, "&": 8,
}

func (ps *parser) expr(minPrec int) Expr {
	lhs := ps.unary()
	for {
		t := ps.peek()
		if t.kind != "op" {
			break
		}
		prec, ok := binPrec[t.text]
		if !ok || prec < minPrec {
			break
		}
		ps.p++
		switch t.text {
		case "?":
			a := ps.expr(0)
			ps.expect(":")
			b := ps.expr(prec)
			lhs = &EIte{lhs, a, b}
		case "==>":
			// right associative
			rhs := ps.expr(prec)
			lhs = &EBin{"==>", lhs, rhs}
		default:
			rhs := ps.expr(prec + 1)
			lhs = &EBin{t.text, lhs, rhs}
		}
	}
	return lhs
}

func (ps *parser) unary() Expr {
	t := ps.peek()
	if t.kind == "op" {
		switch t.text {
		case "!":
			ps.p++
			return &EUn{"!", ps.unary()}
		case "-":
			ps.p++
			return &EUn{"-", ps.unary()}
		case "*":
			ps.p++
			return &EUn{"*", ps.unary()}
		case "&":
			ps.p++
			return &EUn{"&", ps.unary()}
		}
	}
	return ps.postfix(ps.primary())
}

func (ps *parser) typeString() string {
	// consume a Go type up to ',' '::' '{' at depth 0
	start := ps.peek().pos
	depth := 0
	for {
		t := ps.peek()
		if t.kind == "eof" {
			break
		}
		if t.kind == "op" {
			if depth == 0 && (t.text == "," || t.text == "::" || t.text == "{") {
				break
			}
			if t.text == "(" || t.text == "[" {
				depth++
			}
			if t.text == ")" || t.text == "]" {
				depth--
			}
		}
		ps.p++
	}
	end := ps.peek().pos
	return strings.TrimSpace(ps.src[start:end])
}

func (ps *parser) primary() Expr {
	t := ps.next()
	switch t.kind {
	case "int":
		v := new(big.Int)
		if _, ok := v.SetString(t.text, 0); !ok {
			ps.fail("bad integer %q", t.text)
		}
		return &EInt{v}
	case "str":
		return &EStr{t.text}
	case "ident":
		switch t.text {
		case "true":
			return &EBool{true}
		case "false":
			return &EBool{false}
		case "nil":
			return &ENil{}
		case "forall", "exists":
			q := &EQuant{All: t.text == "forall"}
			for {
				n := ps.next()
				if n.kind != "ident" {
					ps.fail("expected bound variable name")
				}
				ty := ps.typeString()
				q.Vars = append(q.Vars, QVar{n.text, ty})
				if ps.isOp(",") {
					ps.p++
					continue
				}
				break
			}
			for ps.isOp("{") {
				ps.p++
				var tr []Expr
				for {
					tr = append(tr, ps.expr(0))
					if ps.isOp(",") {
						ps.p++
						continue
					}
					break
				}
				ps.expect("}")
				q.Trig = append(q.Trig, tr)
			}
			ps.expect("::")
			q.Body = ps.expr(0)
			return q
		}
		return &EIdent{t.text}
	case "op":
		if t.text == "(" {
			e := ps.expr(0)
			ps.expect(")")
			return e
		}
	}
	ps.p--
	ps.fail("unexpected token %q", t.text)
	return nil
}

func (ps *parser) postfix(e Expr) Expr {
	for {
		t := ps.peek()
		if t.kind != "op" {
			return e
		}
		switch t.text {
		case "(":
			id, ok := e.(*EIdent)
			name := ""
			if ok {
				name = id.Name
			} else if sel, ok2 := e.(*ESel); ok2 {
				if x, ok3 := sel.X.(*EIdent); ok3 {
					name = x.Name + "." + sel.Name
				}
			}
			if name == "" {
				ps.fail("call of non-identifier")
			}
			ps.p++
			var args []Expr
			if !ps.isOp(")") {
				for {
					args = append(args, ps.expr(0))
					if ps.isOp(",") {
						ps.p++
						continue
					}
					break
				}
			}
			ps.expect(")")
			e = &ECall{name, args}
		case "[":
			ps.p++
			var lo, hi Expr
			if !ps.isOp(":") {
				lo = ps.expr(0)
			}
			if ps.isOp(":") && lo != nil && ps.toks[ps.p+1].kind == "op" && ps.toks[ps.p+1].text == "=" {
				// m[k := v]: functional update of a ghost map
				ps.p += 2
				v := ps.expr(0)
				ps.expect("]")
				e = &ECall{"$update", []Expr{e, lo, v}}
			} else if ps.isOp(":") {
				ps.p++
				if !ps.isOp("]") {
					hi = ps.expr(0)
				}
				ps.expect("]")
				e = &ESlice{e, lo, hi}
			} else {
				ps.expect("]")
				e = &EIndex{e, lo}
			}
		case ".":
			ps.p++
			n := ps.next()
			if n.kind != "ident" {
				ps.fail("expected field name")
			}
			e = &ESel{e, n.text}
		default:
			return e
		}
	}
}

func exprString(e Expr) string {
	switch x := e.(type) {
	case *EIdent:
		return x.Name
	case *EInt:
		return x.V.String()
	case *EStr:
		return fmt.Sprintf("%q", x.V)
	case *EBool:
		return fmt.Sprint(x.V)
	case *ENil:
		return "nil"
	case *EBin:
		return "(" + exprString(x.L) + " " + x.Op + " " + exprString(x.R) + ")"
	case *EUn:
		return x.Op + exprString(x.X)
	case *ECall:
		var a []string
		for _, y := range x.Args {
			a = append(a, exprString(y))
		}
		return x.Fn + "(" + strings.Join(a, ", ") + ")"
	case *EIndex:
		return exprString(x.X) + "[" + exprString(x.I) + "]"
	case *ESlice:
		lo, hi := "", ""
		if x.Lo != nil {
			lo = exprString(x.Lo)
		}
		if x.Hi != nil {
			hi = exprString(x.Hi)
		}
		return exprString(x.X) + "[" + lo + ":" + hi + "]"
	case *ESel:
		return exprString(x.X) + "." + x.Name
	case *EQuant:
		q := "exists"
		if x.All {
			q = "forall"
		}
		var vs []string
		for _, v := range x.Vars {
			vs = append(vs, v.Name+" "+v.Type)
		}
		return "(" + q + " " + strings.Join(vs, ", ") + " :: " + exprString(x.Body) + ")"
	case *EIte:
		return "(" + exprString(x.C) + " ? " + exprString(x.A) + " : " + exprString(x.B) + ")"
	}
	return "?"
}
