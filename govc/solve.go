package main

import (
	"context"
	"fmt"
	"os"
	"os/exec"
	"path/filepath"
	"strings"
	"sync"
	"time"
)

type solverSpec struct {
	name string
	argv func(file string, timeoutS int) []string
}

var solvers = []solverSpec{
	{"z3-5.1.0", func(f string, t int) []string { return []string{"z3-new", fmt.Sprintf("-T:%d", t), "-smt2", f} }},
	{"z3-4.8.12", func(f string, t int) []string { return []string{"/usr/bin/z3", fmt.Sprintf("-T:%d", t), "-smt2", f} }},
	{"cvc5-1.0.3", func(f string, t int) []string {
		return []string{"cvc5", fmt.Sprintf("--tlimit=%d", t*1000), "--full-saturate-quant", f}
	}},
}

// second-stage configurations, tried only when the first stage has not
// discharged an obligation (z3's relevancy filter hides terms below
// if-then-else heap merges from E-matching)
var solvers2 = []solverSpec{
	{"z3-5.1.0/relevancy=0", func(f string, t int) []string {
		return []string{"z3-new", fmt.Sprintf("-T:%d", t), "smt.relevancy=0", "-smt2", f}
	}},
	{"z3-4.8.12/relevancy=0", func(f string, t int) []string {
		return []string{"/usr/bin/z3", fmt.Sprintf("-T:%d", t), "smt.relevancy=0", "-smt2", f}
	}},
}

type solveResult struct {
	Status  string // unsat sat unknown timeout error
	Solver  string
	Time    float64
	Output  string
	Agree   []string // solvers that answered unsat (thorough: all run to completion)
	Answers map[string]string
}

func firstLine(s string) string {
	for _, l := range strings.Split(s, "\n") {
		l = strings.TrimSpace(l)
		if l == "" || strings.HasPrefix(l, "WARNING") || strings.HasPrefix(l, "(warning") {
			continue
		}
		return l
	}
	return ""
}

func runSolver(ctx context.Context, sp solverSpec, file string, timeoutS int) (string, string, float64) {
	start := time.Now()
	cctx, cancel := context.WithTimeout(ctx, time.Duration(timeoutS+2)*time.Second)
	defer cancel()
	argv := sp.argv(file, timeoutS)
	cmd := exec.CommandContext(cctx, argv[0], argv[1:]...)
	out, _ := cmd.CombinedOutput()
	el := time.Since(start).Seconds()
	fl := firstLine(string(out))
	switch fl {
	case "unsat", "sat", "unknown":
		return fl, string(out), el
	case "timeout":
		return "timeout", string(out), el
	}
	if cctx.Err() != nil {
		return "timeout", string(out), el
	}
	if strings.Contains(string(out), "interrupted") || strings.Contains(string(out), "timeout") {
		return "timeout", string(out), el
	}
	return "error", string(out), el
}

// solve races the solvers on one query; all=true waits for every solver
// (thorough: two-solver agreement).
func solve(dir, name, query string, timeoutS int, all bool) solveResult {
	return solveWith(solvers, dir, name, query, timeoutS, all)
}

func solveWith(solvers []solverSpec, dir, name, query string, timeoutS int, all bool) solveResult {
	file := filepath.Join(dir, name+".smt2")
	if err := os.WriteFile(file, []byte(query), 0o644); err != nil {
		return solveResult{Status: "error", Output: err.Error()}
	}
	ctx, cancel := context.WithCancel(context.Background())
	defer cancel()
	type ans struct {
		solver, status, out string
		t                   float64
	}
	ch := make(chan ans, len(solvers))
	for _, sp := range solvers {
		sp := sp
		go func() {
			st, out, t := runSolver(ctx, sp, file, timeoutS)
			ch <- ans{sp.name, st, out, t}
		}()
	}
	res := solveResult{Status: "unknown", Answers: map[string]string{}}
	var outs []string
	for i := 0; i < len(solvers); i++ {
		a := <-ch
		res.Answers[a.solver] = a.status
		if a.status == "unsat" {
			res.Agree = append(res.Agree, a.solver)
			if res.Status != "unsat" {
				res.Status, res.Solver, res.Time = "unsat", a.solver, a.t
			}
			need := 1
			if all {
				need = 2
			}
			if len(res.Agree) >= need {
				return res
			}
			continue
		}
		if a.status == "sat" && res.Status != "unsat" {
			res.Status, res.Solver, res.Time, res.Output = "sat", a.solver, a.t, a.out
		}
		if a.status == "error" {
			outs = append(outs, a.solver+": "+strings.TrimSpace(a.out))
		}
		if a.t > res.Time && res.Status != "unsat" && res.Status != "sat" {
			res.Time = a.t
		}
	}
	if res.Status == "unknown" && len(outs) == len(solvers) {
		res.Status = "error"
	}
	if res.Status != "unsat" && res.Status != "sat" {
		res.Output = strings.Join(outs, "\n")
	}
	return res
}

type job struct {
	vc    *VC
	index int
}

type obResult struct {
	Name    string  `json:"name"`
	Class   string  `json:"class"`
	Func    string  `json:"function"`
	Desc    string  `json:"desc"`
	Status  string  `json:"status"`
	Solver  string  `json:"solver,omitempty"`
	Time    float64 `json:"time_s"`
	Agree   []string `json:"agree,omitempty"`
	Size    int     `json:"smt_bytes"`
	Output  string  `json:"output,omitempty"`
	vc      *VC
	index   int
}

// splitFirst: obligations known to need the case split (read from
// /verif/solver_hints.json; a performance hint only: the same stages run
// in a different order)
var splitFirst = map[string]bool{}

// noRetry: obligations expected to fail (open known findings): no further stages.
var noRetry = map[string]bool{}

// retryBudget bounds the number of obligations that go through the later
// stages and still fail: once a tree is clearly broken, further failures are
// reported after the first stage (keeps a failing check fast).
type budget struct {
	mu   sync.Mutex
	left int
}

func (b *budget) take() bool {
	b.mu.Lock()
	defer b.mu.Unlock()
	if b.left <= 0 {
		return false
	}
	b.left--
	return true
}

func (b *budget) giveBack() {
	b.mu.Lock()
	b.left++
	b.mu.Unlock()
}

var retryBudget = &budget{left: 8}

func solveAll(dir string, vcs []*VC, timeoutS int, all bool, workers int) []*obResult {
	var jobs []job
	for _, vc := range vcs {
		for i, it := range vc.Items {
			if it.Kind == itOblig {
				jobs = append(jobs, job{vc, i})
			}
		}
	}
	results := make([]*obResult, len(jobs))
	var wg sync.WaitGroup
	sem := make(chan struct{}, workers)
	for k, j := range jobs {
		wg.Add(1)
		sem <- struct{}{}
		go func(k int, j job) {
			defer wg.Done()
			defer func() { <-sem }()
			it := j.vc.Items[j.index]
			q := j.vc.query(j.index, "")
			to, al := timeoutS, all
			if it.Class == "canary" {
				to, al = 3, false
			}
			var r solveResult
			if splitFirst[it.Name] && len(j.vc.splitVars) > 0 {
				// known to need the case split (performance hint file): try it first
				r = solveResult{Status: "unknown"}
			} else {
				r = solve(dir, fmt.Sprintf("q%04d", k), q, to, al)
			}
			if r.Status != "unsat" && r.Status != "sat" && it.Class != "canary" && !noRetry[it.Name] && retryBudget.take() {
				// second stage: other solver configurations
				to2 := to
				if to2 < 30 {
					to2 = 30
				}
				if r2 := func() solveResult {
					if splitFirst[it.Name] && len(j.vc.splitVars) > 0 {
						return solveResult{Status: "unknown"}
					}
					// all configurations, longer limit (a loaded machine makes the
					// first stage time out on obligations that are proved in seconds)
					return solveWith(append(append([]solverSpec{}, solvers2...), solvers...), dir, fmt.Sprintf("q%04d.s2", k), q, to2, false)
				}(); r2.Status == "unsat" {
					r2.Time += r.Time
					r = r2
					retryBudget.giveBack()
				} else if sv := j.vc.splitVars; len(sv) > 0 {
					// third stage: case split over the "this call is executed"
					// conditions named by the contract's bindings; the cubes
					// cover all cases, so the obligation holds iff every cube
					// is unsatisfiable
					if len(sv) > 4 {
						sv = sv[:4]
					}
					n := 1 << len(sv)
					type cr struct {
						st   string
						t    float64
						who  string
					}
					res := make([]cr, n)
					var cw sync.WaitGroup
					for m := 0; m < n; m++ {
						cw.Add(1)
						go func(m int) {
							defer cw.Done()
							var lits []string
							for i, v := range sv {
								if (m>>i)&1 == 1 {
									lits = append(lits, v)
								} else {
									lits = append(lits, "(not "+v+")")
								}
							}
							cq := j.vc.query(j.index, "(assert (and "+strings.Join(lits, " ")+"))\n")
							c1 := solve(dir, fmt.Sprintf("q%04d.c%d", k, m), cq, to, false)
							if c1.Status != "unsat" {
								c2 := solveWith(append(append([]solverSpec{}, solvers2...), solvers...), dir, fmt.Sprintf("q%04d.c%d.s2", k, m), cq, to2, false)
								c2.Time += c1.Time
								c1 = c2
							}
							res[m] = cr{c1.Status, c1.Time, c1.Solver}
						}(m)
					}
					cw.Wait()
					allUnsat := true
					var tmax float64
					who := ""
					for _, c := range res {
						if c.st != "unsat" {
							allUnsat = false
						}
						if c.t > tmax {
							tmax = c.t
						}
						who = c.who
					}
					if allUnsat {
						retryBudget.giveBack()
						r = solveResult{Status: "unsat", Solver: fmt.Sprintf("case-split(%d cubes over call bindings)/%s", n, who), Time: r.Time + tmax}
					} else if splitFirst[it.Name] {
						r = solve(dir, fmt.Sprintf("q%04d", k), q, to2, al)
					}
				}
			}
			results[k] = &obResult{Name: it.Name, Class: it.Class, Func: j.vc.Name, Desc: it.Desc, Status: r.Status, Solver: r.Solver,
				Time: r.Time, Agree: r.Agree, Size: len(q), Output: r.Output, vc: j.vc, index: j.index}
		}(k, j)
	}
	wg.Wait()
	return results
}
