package main

import (
	"fmt"
	"go/token"
	"go/types"
	"strings"

	"golang.org/x/tools/go/ssa"
)

func (tr *FnTrans) call(c *ssa.CallCommon, site ssa.Instruction, pos token.Pos) Val {
	var args []Val
	if c.IsInvoke() {
		args = append(args, tr.val(c.Value))
	}
	for _, a := range c.Args {
		args = append(args, tr.val(a))
	}
	return tr.callWith(c, site, pos, args)
}

func resultType(sig *types.Signature) types.Type {
	switch sig.Results().Len() {
	case 0:
		return nil
	case 1:
		return sig.Results().At(0).Type()
	}
	return sig.Results()
}

func (tr *FnTrans) callWith(c *ssa.CallCommon, site ssa.Instruction, pos token.Pos, args []Val) Val {
	savedGhost := tr.pendingGhost
	tr.pendingGhost = nil
	savedLast := tr.lastBind
	tr.lastBind = ""
	r := tr.callWith0(c, site, pos, args)
	if b := tr.lastBind; b != "" {
		// results of a named call: <name>_r (single result) or <name>_r0,
		// <name>_r1, ... (tuple)
		if len(r.Fields) > 0 && c.Signature().Results().Len() > 1 {
			for j, f := range r.Fields {
				tr.binds[fmt.Sprintf("%s_r%d", b, j)] = f
			}
		} else if c.Signature().Results().Len() == 1 {
			tr.binds[b+"_r"] = r
		}
		if tr.pendingBind == b {
			tr.pendingBind = ""
		}
	}
	tr.lastBind = savedLast
	items := tr.pendingGhost
	tr.pendingGhost = savedGhost
	if len(items) > 0 {
		tr.afterCall(items)
	}
	return r
}

func (tr *FnTrans) callWith0(c *ssa.CallCommon, site ssa.Instruction, pos token.Pos, args []Val) Val {
	vc := tr.vc
	prevCall := tr.curCall
	tr.curCall = c
	defer func() { tr.curCall = prevCall }()
	if c.IsInvoke() {
		tr.atCall(c.Method.Name())
	} else if callee := c.StaticCallee(); callee != nil {
		tr.atCall(callee.Name())
	} else if prm, ok := c.Value.(*ssa.Parameter); ok {
		tr.atCall(prm.Name()) // call of a function-typed parameter
	} else if b, ok := c.Value.(*ssa.Builtin); ok {
		tr.atCall(b.Name())
	}
	if b, ok := c.Value.(*ssa.Builtin); ok && !c.IsInvoke() {
		return tr.builtin(b, c, args, pos)
	}
	sig := c.Signature()
	if c.IsInvoke() {
		recv := args[0]
		tr.oblig("nil", "", sNot(sEq("(i-tag "+recv.T+")", "0")), "method call on nil interface at "+tr.posStr(pos))
		fc := tr.w.ifaceContract(c.Value.Type(), c.Method.Name())
		name := typeKey(c.Value.Type()) + "." + c.Method.Name()
		if fc == nil {
			return tr.unknownCall(name, sig, false)
		}
		var ipkg *types.Package
		if n, ok := c.Value.Type().(*types.Named); ok && n.Obj().Pkg() != nil {
			ipkg = n.Obj().Pkg()
		}
		return tr.applyContract(fc, name, sig, args, true, ipkg, pos)
	}
	callee := c.StaticCallee()
	if callee == nil {
		// call of a function value
		fv := tr.val(c.Value)
		tr.oblig("nil", "", sNot(sEq(fv.T, "0")), "call of a nil function value at "+tr.posStr(pos))
		if fc := tr.w.functypeContract(c.Value.Type()); fc != nil {
			vc.assume("assumed contract for values of function type " + typeKey(c.Value.Type()))
			return tr.applyContract(fc, "func value "+typeKey(c.Value.Type()), sig, args, false, tr.pkg, pos)
		}
		return tr.unknownCall("function value of type "+typeKey(c.Value.Type()), sig, true)
	}
	if _, isClosure := c.Value.(*ssa.MakeClosure); isClosure {
		// immediately applied closure: treat as unknown in-repo call
		return tr.unknownCall(callee.String(), sig, true)
	}
	name := fnDisplayName(callee)
	// sync.Once.Do(f) with f a closure created in this function whose body is
	// under contract: either f runs now (its contract applies) or it ran
	// before (no effect) - nondeterministic choice
	if callee.String() == "(*sync.Once).Do" && len(c.Args) == 2 {
		if mc, ok := c.Args[1].(*ssa.MakeClosure); ok {
			if cfn, ok := mc.Fn.(*ssa.Function); ok {
				if cfc := tr.w.contractFor(cfn); cfc != nil && !cfc.ModAll {
					env := map[string]Val{}
					for i, fv := range cfn.FreeVars {
						env[fv.Name()] = tr.val(mc.Bindings[i])
					}
					chosen := vc.fresh("once_runs", sortBool)
					save := tr.curReach
					before := tr.cur.clone()
					tr.curReach = sAnd(save, chosen)
					tr.applyContractEnv(cfc, relName(cfn), cfn.Signature, nil, env, tr.pkg, pos)
					after := tr.cur
					tr.curReach = save
					tr.cur = tr.mergeHeaps([]string{chosen, "true"}, []*Heap{after, before})
					vc.assume("sync.Once.Do(f): f runs at most once; modelled as 'f runs now or has run before'")
					return Val{K: KUnit}
				}
			}
		}
	}
	fc := tr.w.contractFor(callee)
	if fc == nil {
		if tr.inlinable(callee) {
			return tr.inlineCall(callee, args)
		}
		if tr.w.inRepo(callee) {
			return tr.unknownCall(name, sig, true)
		}
		// external function without a trusted contract: arbitrary effect and
		// result, assumed not to panic (listed as an assumption)
		vc.assume("external function without contract, arbitrary effect, assumed not to panic: " + callee.String())
		return tr.unknownCall(callee.String(), sig, true)
	}
	var cpkg *types.Package
	if callee.Pkg != nil {
		cpkg = callee.Pkg.Pkg
	}
	if fc.Kind == "trusted" {
		vc.assume("trusted contract: " + fc.Key)
		if cpkg == nil || !strings.HasPrefix(cpkg.Path(), modPath) {
			cpkg = tr.pkg
		}
	}
	if sig.Recv() != nil && args[0].K == KRef && tr.w.inRepo(callee) {
		tr.oblig("nil", "", sNot(sEq(args[0].T, "0")), "method call on nil receiver at "+tr.posStr(pos))
	}
	// monitor invariants of the mutex's owner
	mon, owner := tr.monitorOf(c, callee)
	if len(mon) > 0 && (callee.Name() == "Unlock" || callee.Name() == "RUnlock") && !tr.scan {
		ec := tr.specCtx(tr.cur, tr.entryHeap, map[string]Val{"self": owner})
		ec.pkg = tr.pkgOfType(owner.Typ)
		for _, m := range mon {
			tr.oblig("monitor", m.Mutex+"."+m.Label, ec.evalBool(m.E), "monitor invariant holds when "+m.Mutex+" is released at "+tr.posStr(pos)+": "+m.Text)
		}
	}
	res := tr.applyContract(fc, name, sig, args, sig.Recv() != nil, cpkg, pos)
	if len(mon) > 0 && (callee.Name() == "Lock" || callee.Name() == "RLock") && !tr.scan {
		ec := tr.specCtx(tr.cur, tr.entryHeap, map[string]Val{"self": owner})
		ec.pkg = tr.pkgOfType(owner.Typ)
		for _, m := range mon {
			tr.fact(ec.evalBool(m.E))
		}
		vc.assume("monitor rule: the invariant of a mutex-guarded object holds whenever its mutex is free (asserted at every release by the functions under contract)")
	}
	return res
}

// monitorOf: for a call of a sync mutex method on a field x.mu, the declared
// monitor invariants of that field and the owner object x.
func (tr *FnTrans) monitorOf(c *ssa.CallCommon, callee *ssa.Function) ([]MonitorInv, Val) {
	if callee == nil || callee.Pkg == nil || callee.Pkg.Pkg.Path() != "sync" || len(c.Args) == 0 {
		return nil, Val{}
	}
	fa, ok := c.Args[0].(*ssa.FieldAddr)
	if !ok {
		return nil, Val{}
	}
	subj := fieldSubject(fa.X.Type(), fa.Field)
	if subj == "" {
		return nil, Val{}
	}
	pkg := tr.pkgOfType(fa.X.Type())
	if pkg == nil {
		return nil, Val{}
	}
	cf := tr.w.cfiles[pkg.Path()]
	if cf == nil {
		return nil, Val{}
	}
	var out []MonitorInv
	for _, m := range cf.Monitors {
		if m.Mutex == subj {
			out = append(out, m)
		}
	}
	if len(out) == 0 {
		return nil, Val{}
	}
	return out, tr.val(fa.X)
}

func (tr *FnTrans) pkgOfType(t types.Type) *types.Package {
	if t == nil {
		return tr.pkg
	}
	if p, ok := t.Underlying().(*types.Pointer); ok {
		t = p.Elem()
	}
	if n, ok := t.(*types.Named); ok && n.Obj().Pkg() != nil {
		return n.Obj().Pkg()
	}
	return tr.pkg
}

// unknownCall: no contract. In-repo callees havoc the whole heap; the result
// is arbitrary (well-typed).
func (tr *FnTrans) unknownCall(name string, sig *types.Signature, havoc bool) Val {
	vc := tr.vc
	vc.funcsUsed["havoc:"+name] = true
	tr.havocAll()
	rt := resultType(sig)
	if rt == nil {
		return Val{K: KUnit}
	}
	r := tr.freshVal("ret$"+name, rt)
	tr.fact(vc.typeFacts(tr.cur, r))
	return r
}

func (tr *FnTrans) applyContract(fc *FuncContract, name string, sig *types.Signature, args []Val, hasRecv bool, cpkg *types.Package, pos token.Pos) Val {
	return tr.applyContractEnv(fc, name, sig, args, nil, cpkg, pos, hasRecv)
}

// applyContractEnv: call rule; extra binds additional names (free variables
// of a closure).
func (tr *FnTrans) applyContractEnv(fc *FuncContract, name string, sig *types.Signature, args []Val, extra map[string]Val, cpkg *types.Package, pos token.Pos, recv ...bool) Val {
	vc := tr.vc
	fc.Used = true
	hasRecv := len(recv) > 0 && recv[0]
	env := map[string]Val{}
	for k, v := range extra {
		env[k] = v
	}
	i := 0
	if hasRecv && len(fc.Params) == len(args) {
		hasRecv = false // the contract lists the receiver as an ordinary parameter
	}
	if hasRecv {
		if fc.RecvName != "" {
			env[fc.RecvName] = args[0]
		}
		env["$recv"] = args[0]
		i = 1
	}
	if len(fc.Params) != len(args)-i {
		panic(vcErrorf("contract of %s lists %d parameters, call has %d arguments", name, len(fc.Params), len(args)-i))
	}
	for j, p := range fc.Params {
		env[p.Name] = args[i+j]
	}
	tr.callOrd[name]++
	ord := tr.callOrd[name]
	pre := tr.cur.clone()
	allocBefore := vc.hget(pre, compAlloc)
	ec := &evalCtx{vc: vc, env: env, heap: pre, old: pre, pkg: cpkg, entryAlloc: allocBefore}
	for _, c := range fc.Requires {
		if tr.partial {
			break // partial contract: callee preconditions are not checked (listed assumption)
		}
		tr.vc.oblig(fmt.Sprintf("%s#pre:%s.%s:%d", tr.name, name, c.Label, ord), "pre",
			sImp(tr.curReach, ec.evalBool(c.E)), fmt.Sprintf("precondition of %s at %s: %s", name, tr.posStr(pos), c.Text))
	}
	// callback rule: closures passed for parameters the callee declares as
	// callbacks (`calls p`) may run any number of times during the call; their
	// declared invariants (`preserves`) hold before, and therefore after
	type cbInfo struct {
		kfc  *FuncContract
		kenv map[string]Val
		name string
	}
	var cbs []cbInfo
	if len(fc.Calls) > 0 && tr.curCall != nil {
		off := 0
		if hasRecv {
			off = 1
		}
		for j, p := range fc.Params {
			isCb := false
			for _, cn := range fc.Calls {
				if cn == p.Name {
					isCb = true
				}
			}
			argIdx := j
			if tr.curCall.IsInvoke() {
				argIdx = j // Args excludes the receiver for invokes
			} else if off == 1 {
				argIdx = j + 1
			}
			if !isCb || argIdx >= len(tr.curCall.Args) {
				continue
			}
			av := tr.curCall.Args[argIdx]
			for {
				if ct, ok := av.(*ssa.ChangeType); ok {
					av = ct.X
					continue
				}
				break
			}
			if prm, isParam := av.(*ssa.Parameter); isParam && tr.fc != nil {
				// our own callback parameter handed on: the callee may invoke
				// it; its effect is that of the callback type (havoc of the
				// heap, ghost state kept)
				own := false
				for k, fp := range tr.fn.Params {
					if fp == prm {
						pn := fp.Name()
						_ = k
						for _, cn := range tr.fc.Calls {
							if cn == pn {
								own = true
							}
						}
					}
				}
				if own {
					ft := tr.w.functypeContract(prm.Type())
					if ft == nil {
						ft = &FuncContract{ModHeap: true}
					}
					cbs = append(cbs, cbInfo{&FuncContract{ModHeap: ft.ModHeap, ModAll: ft.ModAll, ModExcept: ft.ModExcept, Modifies: ft.Modifies}, nil, "(callback parameter " + prm.Name() + ")"})
					continue
				}
			}
			mc, ok := av.(*ssa.MakeClosure)
			if !ok {
				panic(vcErrorf("callback argument %s of %s is not a closure created in this function", p.Name, name))
			}
			kfn := mc.Fn.(*ssa.Function)
			kfc := tr.w.contractFor(kfn)
			if kfc == nil {
				panic(vcErrorf("closure %s passed as callback has no contract", relName(kfn)))
			}
			kenv := map[string]Val{}
			for i, fv := range kfn.FreeVars {
				kenv[fv.Name()] = tr.val(mc.Bindings[i])
			}
			cbs = append(cbs, cbInfo{kfc, kenv, relName(kfn)})
			kec := &evalCtx{vc: vc, env: kenv, heap: pre, old: pre, pkg: tr.pkg, entryAlloc: allocBefore}
			for _, c := range kfc.Preserves {
				tr.vc.oblig(fmt.Sprintf("%s#callback-inv:%s.%s:%d", tr.name, relName(kfn), c.Label, ord), "callback-inv",
					sImp(tr.curReach, kec.evalBool(c.E)), fmt.Sprintf("invariant of callback %s holds before the call of %s: %s", relName(kfn), name, c.Text))
			}
		}
	}
	// effects
	if fc.ModAll {
		tr.havocAll()
	} else if fc.ModHeap && fc.ModGhosts {
		// everything except the excepted heap components
		excepted := map[string]bool{}
		for _, m := range fc.ModExcept {
			for _, t := range tr.modTargets(ec, m) {
				excepted[t.comp] = true
			}
		}
		keep := map[string]string{}
		for c := range excepted {
			if _, ok := vc.compSort[c]; ok {
				keep[c] = vc.hget(tr.cur, c)
			}
		}
		ks := &keptSet{ghostMod: map[string]bool{}, comps: map[string]bool{}}
		for c := range keep {
			ks.comps[c] = true
		}
		tr.keepNext = ks
		tr.havocAll()
		for c, v := range keep {
			tr.cur.m[c] = v
		}
		var gts []modTarget
		for _, m := range fc.Modifies {
			gts = append(gts, tr.modTargets(ec, m)...)
		}
		_ = gts
	} else if fc.ModHeap {
		// everything program-visible is havoced, ghost state only as listed
		var targets []modTarget
		for _, m := range fc.Modifies {
			targets = append(targets, tr.modTargets(ec, m)...)
		}
		excepted := map[string]bool{}
		for _, m := range fc.ModExcept {
			for _, t := range tr.modTargets(ec, m) {
				excepted[t.comp] = true // excepted components keep their version
			}
		}
		var gts []modTarget
		gmod := map[string]bool{}
		for _, t := range targets {
			if strings.HasPrefix(t.comp, "G$") {
				gts = append(gts, t)
				gmod[t.comp] = true
			}
		}
		tr.havocHeapKeeping(excepted, gmod)
		tr.applyMods(gts)
	} else {
		var targets []modTarget
		for _, m := range fc.Modifies {
			targets = append(targets, tr.modTargets(ec, m)...)
		}
		tr.applyMods(targets)
		tr.bumpAlloc()
	}
	// effects of the callbacks (any number of invocations): their modifies
	// sets are havoced, their invariants hold afterwards
	for _, cb := range cbs {
		if cb.kfc.ModAll {
			tr.havocAll()
		} else if cb.kfc.ModHeap {
			xec := &evalCtx{vc: vc, env: cb.kenv, heap: pre, old: pre, pkg: tr.pkg, entryAlloc: allocBefore}
			excepted := map[string]bool{}
			for _, m := range cb.kfc.ModExcept {
				for _, t := range tr.modTargets(xec, m) {
					excepted[t.comp] = true
				}
			}
			var gmods []modTarget
			gmod := map[string]bool{}
			for _, m := range cb.kfc.Modifies {
				for _, t := range tr.modTargets(xec, m) {
					if strings.HasPrefix(t.comp, "G$") {
						gmods = append(gmods, t)
						gmod[t.comp] = true
					}
				}
			}
			tr.havocHeapKeeping(excepted, gmod)
			tr.applyMods(gmods)
		} else {
			kec := &evalCtx{vc: vc, env: cb.kenv, heap: pre, old: pre, pkg: tr.pkg, entryAlloc: allocBefore}
			var kt []modTarget
			for _, m := range cb.kfc.Modifies {
				kt = append(kt, tr.modTargets(kec, m)...)
			}
			tr.applyMods(kt)
			tr.bumpAlloc()
		}
	}
	for _, cb := range cbs {
		kec := &evalCtx{vc: vc, env: cb.kenv, heap: tr.cur, old: pre, pkg: tr.pkg, entryAlloc: allocBefore}
		for _, c := range cb.kfc.Preserves {
			tr.fact(kec.evalBool(c.E))
		}
		vc.assume("callback rule: a closure passed as callback preserves its declared invariants over any number of invocations (each invocation is verified against them)")
	}
	// results
	rt := resultType(sig)
	var res Val
	env2 := map[string]Val{}
	for k, v := range env {
		env2[k] = v
	}
	if rt == nil {
		res = Val{K: KUnit}
	} else {
		res = tr.freshVal("ret$"+name, rt)
		tr.fact(vc.typeFacts(tr.cur, res))
		if len(fc.Results) > 0 {
			if tp, ok := rt.(*types.Tuple); ok {
				if len(fc.Results) != tp.Len() {
					panic(vcErrorf("contract of %s lists %d results, function has %d", name, len(fc.Results), tp.Len()))
				}
				for j, r := range fc.Results {
					env2[r.Name] = res.Fields[j]
				}
			} else {
				env2[fc.Results[0].Name] = res
			}
		}
	}
	// ghost results of the callee: fresh values, constrained by its ensures
	for _, gr := range fc.GhostResults {
		srt := ghostSort(gr.Type)
		g := vc.fresh("gres$"+gr.Name, srt)
		gv := Val{K: sortKind(srt), T: g, Sort: srt}
		env2[gr.Name] = gv
		if tr.pendingBind != "" {
			tr.binds[tr.pendingBind+"_"+gr.Name] = gv
		}
	}
	tr.pendingBind = ""
	post := &evalCtx{vc: vc, env: env2, heap: tr.cur, old: pre, pkg: cpkg, entryAlloc: allocBefore}
	for _, c := range fc.Ensures {
		tr.fact(post.evalBool(c.E))
	}
	for _, c := range fc.Assumes {
		tr.fact(post.evalBool(c.E))
		vc.assume("assumed (unproved) postcondition of " + name + " [" + c.Label + "]: " + c.Text)
	}
	return res
}

// ---------------------------------------------------------------- builtins

func (tr *FnTrans) builtin(b *ssa.Builtin, c *ssa.CallCommon, args []Val, pos token.Pos) Val {
	vc := tr.vc
	switch b.Name() {
	case "len":
		v := args[0]
		switch v.K {
		case KSlice:
			return Val{K: KInt, T: "(s-len " + v.T + ")", Typ: types.Typ[types.Int]}
		case KStr:
			return Val{K: KInt, T: sApp("slen", v.T), Typ: types.Typ[types.Int]}
		case KRef:
			if _, ok := v.Typ.Underlying().(*types.Map); ok {
				l := tr.mapLenFacts(v)
				return Val{K: KInt, T: l, Typ: types.Typ[types.Int]}
			}
			if _, ok := v.Typ.Underlying().(*types.Chan); ok {
				n := vc.fresh("chanlen", sortInt)
				tr.fact(sLe("0", n))
				return Val{K: KInt, T: n, Typ: types.Typ[types.Int]}
			}
		}
		panic(vcErrorf("len of %v", v.K))
	case "cap":
		v := args[0]
		if v.K == KSlice {
			return Val{K: KInt, T: "(s-cap " + v.T + ")", Typ: types.Typ[types.Int]}
		}
		n := vc.fresh("chancap", sortInt)
		tr.fact(sLe("0", n))
		return Val{K: KInt, T: n, Typ: types.Typ[types.Int]}
	case "append":
		return tr.appendOp(c, args, pos)
	case "copy":
		return tr.copyOp(args, pos)
	case "delete":
		tr.lockCheck(c.Args[0], true, pos)
		tr.mapStore(args[0], args[1].T, "", false)
		return Val{K: KUnit}
	case "close":
		tr.oblig("nilchan", "", sNot(sEq(args[0].T, "0")), "close of nil channel at "+tr.posStr(pos))
		tr.chanEvent("close", args[0], nil, pos, chanClass(c.Args[0]))
		return Val{K: KUnit}
	case "print", "println":
		return Val{K: KUnit}
	}
	panic(vcErrorf("unsupported builtin %s", b.Name()))
}

// copyElems states that n elements of kind et at (dstArr, dstOff) in the
// current heap equal the elements at (srcArr, srcOff) of heap `from`, other
// elements of dstArr being those of heap `from`'s dstArr when keep is true.
func (tr *FnTrans) copyRange(et types.Type, from *Heap, dstArr, dstOff, srcArr, srcOff, n string, keepFromArr string) {
	vc := tr.vc
	if kindOf(et) == KStruct {
		s := et.Underlying().(*types.Struct)
		for i := 0; i < s.NumFields(); i++ {
			if kindOf(s.Field(i).Type()) == KStruct {
				panic(vcErrorf("copy of nested struct elements unsupported"))
			}
			comp, _ := vc.fieldComp(et, i)
			old := vc.hget(from, comp)
			nw := vc.fresh(comp+"@cp", vc.compSort[comp])
			vc.wellFormedComp(comp, nw)
			vc.erefDecls()
			isDst := isElemOf("r", dstArr, dstOff, sAdd(dstOff, n))
			srcRef := sApp("eref", srcArr, sAdd(sSub(sApp("erefidx", sApp("gid", "r")), dstOff), srcOff))
			// copied part
			tr.fact(fmt.Sprintf("(forall ((r Int)) (! (=> %s (= (select %s r) (select %s %s))) :pattern ((select %s r))))", isDst, nw, old, srcRef, nw))
			// frame: all other objects unchanged
			tr.fact(fmt.Sprintf("(forall ((r Int)) (! (=> (not %s) (= (select %s r) (select %s r))) :pattern ((select %s r))))", isDst, nw, old, nw))
			tr.cur.m[comp] = nw
		}
		return
	}
	comp := vc.elemComp(et)
	old := vc.hget(from, comp)
	cur := vc.hget(tr.cur, comp)
	_, es := splitArrSort(vc.compSort[comp])
	inner := vc.fresh(comp+"@in", es)
	if r, ok := vc.w.compRange[comp]; ok {
		tr.vc.decl("wf:"+inner, fmt.Sprintf("(assert (forall ((j Int)) (! (and (<= %s (select %s j)) (<= (select %s j) %s)) :pattern ((select %s j)))))", sBig(r[0]), inner, inner, sBig(r[1]), inner))
	}
	tr.fact(fmt.Sprintf("(forall ((j Int)) (! (=> (and (<= %s j) (< j (+ %s %s))) (= (select %s j) (select (select %s %s) (+ (- j %s) %s)))) :pattern ((select %s j))))",
		dstOff, dstOff, n, inner, old, srcArr, dstOff, srcOff, inner))
	if tr.fc != nil && tr.fc.ForwardFrames {
		// the same statement indexed by the source position (instantiated by
		// reads of the source: carries witnesses from the source to the copy)
		tr.fact(fmt.Sprintf("(forall ((i Int)) (! (=> (and (<= %s i) (< i (+ %s %s))) (= (select %s (+ (- i %s) %s)) (select (select %s %s) i))) :pattern ((select (select %s %s) i))))",
			srcOff, srcOff, n, inner, srcOff, dstOff, old, srcArr, old, srcArr))
	}
	// ground instance for the first copied element (gives E-matching a term
	// for the element an append just wrote)
	tr.fact(sImp(sLe("1", n), sEq(sSel(inner, dstOff), sSel(sSel(old, srcArr), srcOff))))
	if keepFromArr != "" {
		pats := fmt.Sprintf(":pattern ((select %s j))", inner)
		if tr.fc != nil && tr.fc.ForwardFrames {
			// also instantiate from reads of the old array (needed to carry
			// existential witnesses across the update)
			pats += fmt.Sprintf(" :pattern ((select (select %s %s) j))", cur, keepFromArr)
		}
		tr.fact(fmt.Sprintf("(forall ((j Int)) (! (=> (not (and (<= %s j) (< j (+ %s %s)))) (= (select %s j) (select (select %s %s) j))) %s))",
			dstOff, dstOff, n, inner, cur, keepFromArr, pats))
	}
	nw := vc.fresh(comp+"@cp", vc.compSort[comp])
	vc.fact(sEq(nw, sSto(cur, dstArr, inner)), "")
	if tr.fc != nil && tr.fc.ForwardFrames {
		vc.fact(sEq(sSel(nw, dstArr), inner), "")
	}
	tr.cur.m[comp] = nw
}

func (tr *FnTrans) copyOp(args []Val, pos token.Pos) Val {
	vc := tr.vc
	dst, src := args[0], args[1]
	n := vc.fresh("copyn", sortInt)
	if src.K == KStr {
		panic(vcErrorf("copy from string unsupported"))
	}
	vc.fact(sEq(n, sIte(sLe("(s-len "+dst.T+")", "(s-len "+src.T+")"), "(s-len "+dst.T+")", "(s-len "+src.T+")")), "")
	pre := tr.cur.clone()
	tr.copyRange(sliceElem(dst.Typ), pre, "(s-arr "+dst.T+")", "(s-off "+dst.T+")", "(s-arr "+src.T+")", "(s-off "+src.T+")", n, "(s-arr "+dst.T+")")
	return Val{K: KInt, T: n, Typ: types.Typ[types.Int]}
}

func (tr *FnTrans) appendOp(c *ssa.CallCommon, args []Val, pos token.Pos) Val {
	vc := tr.vc
	s, t := args[0], args[1]
	et := sliceElem(s.Typ)
	if t.K == KStr {
		panic(vcErrorf("append of string unsupported"))
	}
	tl := "(s-len " + t.T + ")"
	if t.Known > 0 {
		tl = sNum(int64(t.Known - 1))
	}
	newLen := vc.fresh("applen", sortInt)
	vc.fact(sEq(newLen, sAdd("(s-len "+s.T+")", tl)), "")
	fits := vc.fresh("appfits", sortBool)
	vc.fact(sEq(fits, sLe(newLen, "(s-cap "+s.T+")")), "")
	pre := tr.cur.clone()
	saveReach := tr.curReach
	// case 1: in place
	tr.curReach = sAnd(saveReach, fits)
	h1start := tr.cur
	tr.cur = pre.clone()
	tr.copyRange(et, pre, "(s-arr "+s.T+")", sAdd("(s-off "+s.T+")", "(s-len "+s.T+")"), "(s-arr "+t.T+")", "(s-off "+t.T+")", tl, "(s-arr "+s.T+")")
	h1 := tr.cur
	_ = h1start
	r1 := fmt.Sprintf("(mk-slice (s-arr %s) (s-off %s) %s (s-cap %s))", s.T, s.T, newLen, s.T)
	// case 2: grow into a fresh array
	tr.curReach = sAnd(saveReach, sNot(fits))
	tr.cur = pre.clone()
	arr := vc.alloc(tr.cur)
	ncap := vc.fresh("appcap", sortInt)
	vc.fact(sAnd(sLe(newLen, ncap), sLe(ncap, maxLenStr)), "")
	tr.copyRange(et, pre, arr, "0", "(s-arr "+s.T+")", "(s-off "+s.T+")", "(s-len "+s.T+")", "")
	mid := tr.cur.clone()
	tr.copyRange(et, mid, arr, "(s-len "+s.T+")", "(s-arr "+t.T+")", "(s-off "+t.T+")", tl, arr)
	h2 := tr.cur
	r2 := fmt.Sprintf("(mk-slice %s 0 %s %s)", arr, newLen, ncap)
	tr.curReach = saveReach
	tr.cur = tr.mergeHeaps([]string{fits, sNot(fits)}, []*Heap{h1, h2})
	// appending to a nil slice with nothing: stays as is; the length bound
	tr.fact(sLe(newLen, maxLenStr))
	res := Val{K: KSlice, T: sIte(fits, r1, r2), Typ: s.Typ}
	n := vc.fresh("append", sortSlice)
	vc.fact(sEq(n, res.T), "")
	res.T = n
	return res
}

// ---------------------------------------------------------------- concurrency primitives (abstracted)

// chanEvent records a channel operation through the optional event contract
// "chan.<op>" (ghost bookkeeping); without one it is a no-op.
// chanContract finds the event contract of a channel operation: first the
// one declared for the channel's field ("chan.send:Client.ackQueue" in the
// package's contract file), then the global one.
func (tr *FnTrans) chanContract(op, class string) *FuncContract {
	if class != "" && tr.pkg != nil {
		if fc, ok := tr.w.contracts[tr.pkg.Path()+"\x00chan."+op+":"+class]; ok {
			return fc
		}
	}
	if tr.pkg != nil {
		// package-wide event contract for channels without a class (channels
		// obtained from a function value)
		if fc, ok := tr.w.contracts[tr.pkg.Path()+"\x00chan."+op]; ok && class == "" {
			return fc
		}
	}
	if fc, ok := tr.w.contracts["chan."+op]; ok {
		return fc
	}
	return nil
}

// chanClass names the struct field a channel value was loaded from.
func chanClass(v ssa.Value) string {
	if call, ok := v.(*ssa.Call); ok {
		// channel returned by a method: class "ret:<method>"
		if callee := call.Call.StaticCallee(); callee != nil {
			return "ret:" + strings.NewReplacer("(*", "", "(", "", ")", "").Replace(relName(callee))
		}
		return ""
	}
	un, ok := v.(*ssa.UnOp)
	if !ok || un.Op != token.MUL {
		return ""
	}
	fa, ok := un.X.(*ssa.FieldAddr)
	if !ok {
		return ""
	}
	t := fa.X.Type()
	if p, ok := t.Underlying().(*types.Pointer); ok {
		t = p.Elem()
	}
	n, ok := t.(*types.Named)
	if !ok {
		return ""
	}
	return n.Obj().Name() + "." + structOf(t).Field(fa.Field).Name()
}

func (tr *FnTrans) chanEvent(op string, ch Val, v *Val, pos token.Pos, class string) {
	fc := tr.chanContract(op, class)
	if fc == nil {
		return
	}
	args := []Val{ch}
	if v != nil {
		args = append(args, *v)
	}
	if len(fc.Params) != len(args) {
		return
	}
	tr.applyContract(fc, "chan."+op+":"+class, types.NewSignatureType(nil, nil, nil, nil, nil, false), args, false, tr.pkg, pos)
}

func (tr *FnTrans) goStmt(x *ssa.Go) {
	// a new goroutine runs the callee at some later time: no effect on this
	// invocation's view, recorded through the optional "go" event contract.
	tr.vc.assume("goroutine creation is a no-op for the spawning function's sequential contract")
}

func (tr *FnTrans) send(x *ssa.Send) {
	ch := tr.val(x.Chan)
	v := tr.val(x.X)
	// an unconditional send statement may have its own event ("put"), distinct
	// from a send that is one case of a select
	if cl := chanClass(x.Chan); cl != "" && tr.pkg != nil {
		if _, ok := tr.w.contracts[tr.pkg.Path()+"\x00chan.put:"+cl]; ok {
			tr.chanEvent("put", ch, &v, x.Pos(), cl)
			return
		}
	}
	tr.chanEvent("send", ch, &v, x.Pos(), chanClass(x.Chan))
}

func (tr *FnTrans) recv(x *ssa.UnOp, ch Val) {
	vc := tr.vc
	et := x.X.Type().Underlying().(*types.Chan).Elem()
	r := tr.freshVal("recv", et)
	tr.fact(vc.typeFacts(tr.cur, r))
	if x.CommaOk {
		ok := vc.fresh("recvok", sortBool)
		tr.vals[x] = Val{K: KTuple, Fields: []Val{r, {K: KBool, T: ok, Typ: types.Typ[types.Bool]}}}
	} else {
		tr.vals[x] = r
	}
	tr.chanEvent("recv", ch, &r, x.Pos(), chanClass(x.X))
}

func (tr *FnTrans) selectOp(x *ssa.Select) {
	vc := tr.vc
	idx := vc.fresh("select", sortInt)
	lo := "0"
	if !x.Blocking {
		lo = "(- 1)"
	}
	tr.fact(sAnd(sLe(lo, idx), sLt(idx, sNum(int64(len(x.States))))))
	fields := []Val{{K: KInt, T: idx, Typ: types.Typ[types.Int]}, {K: KBool, T: vc.fresh("selrecvok", sortBool), Typ: types.Typ[types.Bool]}}
	if !x.Blocking {
		// a non-blocking select attempts each of its receives: "try" event
		for _, st := range x.States {
			if st.Dir == types.RecvOnly {
				if cl := chanClass(st.Chan); cl != "" && tr.pkg != nil {
					if _, ok := tr.w.contracts[tr.pkg.Path()+"\x00chan.try:"+cl]; ok {
						tr.chanEvent("try", tr.val(st.Chan), nil, x.Pos(), cl)
					}
				}
			}
			// ... and offers each of its sends: "offer" event
			if st.Dir == types.SendOnly {
				cl := chanClass(st.Chan)
				if tr.chanContract("offer", cl) != nil {
					tr.chanEvent("offer", tr.val(st.Chan), nil, x.Pos(), cl)
				}
			}
		}
	}
	for i, st := range x.States {
		ch := tr.val(st.Chan)
		if st.Dir == types.RecvOnly {
			et := st.Chan.Type().Underlying().(*types.Chan).Elem()
			r := tr.freshVal(fmt.Sprintf("selrecv%d", i), et)
			tr.fact(vc.typeFacts(tr.cur, r))
			fields = append(fields, r)
			save := tr.curReach
			tr.curReach = sAnd(save, sEq(idx, sNum(int64(i))))
			tr.chanEventCond("recv", ch, &r, x.Pos(), chanClass(st.Chan))
			tr.curReach = save
		} else {
			v := tr.val(st.Send)
			save := tr.curReach
			tr.curReach = sAnd(save, sEq(idx, sNum(int64(i))))
			tr.chanEventCond("send", ch, &v, x.Pos(), chanClass(st.Chan))
			tr.curReach = save
		}
	}
	tr.vals[x] = Val{K: KTuple, Fields: fields}
	vc.assume("select picks an arbitrary case (scheduling abstracted)")
}

// chanEventCond applies a channel event under the current (narrowed) reach
// condition and merges the heap with the untouched one.
func (tr *FnTrans) chanEventCond(op string, ch Val, v *Val, pos token.Pos, class string) {
	if tr.chanContract(op, class) == nil {
		return
	}
	before := tr.cur.clone()
	cond := tr.curReach
	tr.chanEvent(op, ch, v, pos, class)
	after := tr.cur
	tr.cur = tr.mergeHeaps([]string{cond, "true"}, []*Heap{after, before})
}
