package main

// Parser for contract files: lines starting with //@ inside
// <pkg>/verif_contracts.go (build tag verif, comment-only) and
// /verif/trusted/*.contracts (trusted contracts of external functions).

import (
	"fmt"
	"os"
	"regexp"
	"strconv"
	"strings"
)

type Clause struct {
	Kind  string // requires ensures invariant assert lemma-ensures ...
	Label string
	Text  string
	E     Expr
	Line  int
}

type Param struct{ Name, Type string }

type AtItem struct {
	Pointwise bool // ghostset pointwise x[v] := e : for every key v
	Anchor string // e.g. "call 2 SavePacket", "loop 1 head", "entry", "exit"
	What   string // "use" | "assert" | "assume-ghost" | "ghost"
	Label  string
	Text   string
	E      Expr
	// for "ghost": assignment target
	Target Expr
}

type FuncContract struct {
	File     string
	Line     int
	Kind     string // "func" "interface" "trusted"
	Key      string // matching key, see contractKey()
	RecvName string
	Params   []Param // excluding receiver
	Results  []Param
	Requires []Clause
	Ensures  []Clause
	Modifies []Expr
	ModText  []string
	ModAll   bool // "modifies everything"
	ModExcept []Expr // with "modifies heap": components that are NOT modified (heap-except(...))
	ModGhosts bool // "allghosts" (with heap / heap-except): the ghost state is not preserved either
	ModHeap  bool // "modifies heap": every program-visible location, but only the listed ghost state
	HasMod   bool
	Wrapping bool
	Partial  bool // partial contract: only the stated assertions, postconditions and invariants are checked (no safety obligations, no callee preconditions); labelled as such in the evidence
	Pure     bool // result is a function of the arguments (and heap)
	Decr     Expr
	LoopInv  map[int][]Clause
	LoopDec  map[int]Expr
	LoopMod  map[int][]string
	At       []AtItem
	Opaque   bool // trusted with no effect, arbitrary result
	Used     bool
	Assumes  []Clause // postconditions assumed at call sites but NOT checked against the body (listed as assumptions)
	ForwardFrames bool // "hint forward-frames": frame axioms of array updates also trigger on reads of the old array
	GhostResets  []string // ghostreset a, b: ghost variables set to their zero value when the function is entered (it must list them in modifies)
	GhostLocals  []Param // ghostlocal name type: function-private ghost variables (zero at entry), updated by `at call ... ghost`
	GhostResults []Param // ghost results (name, ghost type): extra, specification-only results of the function
	GhostDefs    []AtItem // ghostdef name[q] := expr : definition of a ghost result at exit
	GhostSets []AtItem // ghost updates at function exit:  ghostset target := expr
	Preserves []Clause // closure invariants: required at entry, ensured at exit
	Calls     []string // parameters that are callbacks: the function's only other effects come from invoking them
}

type SpecFunc struct {
	Name   string
	Params []Param
	Result string // type string; "bool" for pred
	Body   Expr
	Text   string
	Rec    bool
	Uninterp bool // declared only (no body)
	Line   int
	File   string
}

type Lemma struct {
	Name     string
	Params   []Param
	Requires []Clause
	Ensures  []Clause
	Uses     []Expr // use lemma(args) / unfold f(args)
	Induct   string
	Line     int
	File     string
}

type GhostVar struct {
	Name string
	Type string // go-ish: int, bool, map[int]bool, map[int]map[int]int ...
}

type GuardedBy struct {
	Mutex  string   // "IDCounter.mutex"
	Fields []string // "IDCounter.next"
}

type Writers struct {
	Field string   // "Client.will"
	Funcs []string // contract keys
}

// SiteDecl: a structural (syntactic) obligation over the SSA of a package:
// the set of program sites of some kind must be within the declared set of
// functions.
type SiteDecl struct {
	Kind    string // writers | sends | callsites | invokes | closureuse
	Subject string
	Allowed []string
	Line    int
}

type GlobalInv struct {
	Name  string // global var name
	Label string
	Text  string
	E     Expr
}

type ContractFile struct {
	PkgPath   string
	Funcs     []*FuncContract
	Specs     []*SpecFunc
	Lemmas    []*Lemma
	Ghosts    []GhostVar
	Guarded   []GuardedBy
	WritersOf []Writers
	Globals   []GlobalInv
	Axioms    []Clause
	Immutable []string // "Tree.separator" fields never written after construction
	Sites     []SiteDecl
	Monitors  []MonitorInv
}

// MonitorInv: invariant of the state guarded by a mutex field; assumed after
// Lock/RLock of that mutex, asserted before Unlock/RUnlock. `self` names the
// object that contains the mutex.
type MonitorInv struct {
	Mutex string // "Future.mutex"
	Label string
	Text  string
	E     Expr
}

var clauseKw = map[string]bool{"partial": true, "ghostreset": true, "ghostlocal": true, "ghostresult": true, "ghostdef": true, "assumes": true, "hint": true, "ghostset": true, "preserves": true, "calls": true, "requires": true, "ensures": true, "modifies": true, "assigns": true,
	"decreases": true, "wrapping": true, "loop": true, "at": true, "pure": true, "opaque": true,
	"use": true, "by": true}
var itemKw = map[string]bool{"spec": true, "lemma": true, "func": true, "interface": true, "trusted": true,
	"guarded_by": true, "ghost": true, "writers": true, "global": true, "axiom": true, "immutable": true, "uninterp": true,
	"functype": true, "monitor": true, "sends": true, "recvs": true, "selectsends": true, "callsites": true, "invokes": true, "closureuse": true}

var labelRe = regexp.MustCompile(`^\[([A-Za-z0-9_\-\.]+)\]\s*`)

func firstWord(s string) string {
	s = strings.TrimSpace(s)
	for i, c := range s {
		if !(c == '_' || (c >= 'a' && c <= 'z') || (c >= 'A' && c <= 'Z')) {
			return s[:i]
		}
	}
	return s
}

// logical lines: a line starting with an item/clause keyword begins a new
// logical line, everything else continues the previous one.
type logicalLine struct {
	text string
	line int
}

func readContractLines(path string, requirePrefix bool) ([]logicalLine, error) {
	data, err := os.ReadFile(path)
	if err != nil {
		return nil, err
	}
	var out []logicalLine
	for i, raw := range strings.Split(string(data), "\n") {
		t := strings.TrimSpace(raw)
		if requirePrefix {
			if !strings.HasPrefix(t, "//@") {
				continue
			}
			t = strings.TrimSpace(strings.TrimPrefix(t, "//@"))
		} else {
			if strings.HasPrefix(t, "#") {
				continue
			}
		}
		if t == "" {
			continue
		}
		// strip trailing comment  " // ..."  (only when preceded by two spaces)
		if k := strings.Index(t, "  // "); k >= 0 {
			t = strings.TrimSpace(t[:k])
		}
		w := firstWord(t)
		if itemKw[w] || clauseKw[w] {
			out = append(out, logicalLine{t, i + 1})
		} else {
			if len(out) == 0 {
				return nil, fmt.Errorf("%s:%d: continuation line without a clause", path, i+1)
			}
			out[len(out)-1].text += " " + t
		}
	}
	return out, nil
}

func splitTop(s string, sep byte) []string {
	var out []string
	depth := 0
	start := 0
	for i := 0; i < len(s); i++ {
		switch s[i] {
		case '(', '[', '{':
			depth++
		case ')', ']', '}':
			depth--
		default:
			if s[i] == sep && depth == 0 {
				out = append(out, strings.TrimSpace(s[start:i]))
				start = i + 1
			}
		}
	}
	if strings.TrimSpace(s[start:]) != "" {
		out = append(out, strings.TrimSpace(s[start:]))
	}
	return out
}

func parseParams(s string) []Param {
	var ps []Param
	for _, part := range splitTop(s, ',') {
		part = strings.TrimSpace(part)
		if part == "" {
			continue
		}
		k := strings.IndexAny(part, " \t")
		if k < 0 {
			ps = append(ps, Param{Name: part})
		} else {
			ps = append(ps, Param{Name: part[:k], Type: strings.TrimSpace(part[k+1:])})
		}
	}
	// Go style "a, b int": propagate type backwards
	for i := len(ps) - 2; i >= 0; i-- {
		if ps[i].Type == "" {
			ps[i].Type = ps[i+1].Type
		}
	}
	return ps
}

// matchParen returns the index of the parenthesis closing the one at s[i].
func matchParen(s string, i int) int {
	depth := 0
	for j := i; j < len(s); j++ {
		if s[j] == '(' {
			depth++
		} else if s[j] == ')' {
			depth--
			if depth == 0 {
				return j
			}
		}
	}
	return -1
}

// parseSignature parses  [(recv *T)] Name(params) [(results)|type]
// for kind "func";  "T.Name(params) (results)" for interface;
// "\"full name\" (params) (results)" for trusted.
func parseSignature(kind, s string) (*FuncContract, error) {
	fc := &FuncContract{Kind: kind, LoopInv: map[int][]Clause{}, LoopDec: map[int]Expr{}, LoopMod: map[int][]string{}}
	s = strings.TrimSpace(s)
	name := ""
	switch kind {
	case "trusted":
		if !strings.HasPrefix(s, "\"") {
			return nil, fmt.Errorf("trusted: expected quoted full name")
		}
		k := strings.Index(s[1:], "\"")
		name = s[1 : 1+k]
		s = strings.TrimSpace(s[k+2:])
		fc.Key = name
	case "interface":
		k := strings.Index(s, "(")
		name = strings.TrimSpace(s[:k])
		s = s[k:]
		fc.Key = name
	default:
		recvT := ""
		if strings.HasPrefix(s, "(") {
			e := matchParen(s, 0)
			rp := parseParams(s[1:e])
			if len(rp) != 1 {
				return nil, fmt.Errorf("bad receiver")
			}
			fc.RecvName = rp[0].Name
			recvT = rp[0].Type
			if recvT == "" { // "(*T)" form without a name
				recvT = rp[0].Name
				fc.RecvName = ""
			}
			s = strings.TrimSpace(s[e+1:])
			s = strings.TrimPrefix(s, ".")
		}
		k := strings.Index(s, "(")
		if k < 0 {
			return nil, fmt.Errorf("missing parameter list")
		}
		name = strings.TrimSpace(s[:k])
		s = s[k:]
		if recvT != "" {
			fc.Key = "(" + recvT + ")." + name
		} else {
			fc.Key = name
		}
	}
	if !strings.HasPrefix(s, "(") {
		return nil, fmt.Errorf("missing parameter list")
	}
	e := matchParen(s, 0)
	fc.Params = parseParams(s[1:e])
	rest := strings.TrimSpace(s[e+1:])
	if rest != "" {
		if strings.HasPrefix(rest, "(") {
			e2 := matchParen(rest, 0)
			fc.Results = parseParams(rest[1:e2])
		} else {
			fc.Results = []Param{{Name: "result", Type: rest}}
		}
	}
	return fc, nil
}

func parseClauseExpr(kind, rest string, line int, path string) (Clause, error) {
	c := Clause{Kind: kind, Line: line}
	if m := labelRe.FindStringSubmatch(rest); m != nil {
		c.Label = m[1]
		rest = rest[len(m[0]):]
	}
	c.Text = rest
	e, err := parseExpr(rest)
	if err != nil {
		return c, fmt.Errorf("%s:%d: %v", path, line, err)
	}
	c.E = e
	return c, nil
}

func parseContractFile(path, pkgPath string, requirePrefix bool) (*ContractFile, error) {
	lines, err := readContractLines(path, requirePrefix)
	if err != nil {
		return nil, err
	}
	cf := &ContractFile{PkgPath: pkgPath}
	var curF *FuncContract
	var curL *Lemma
	autoLabel := 0
	for _, ll := range lines {
		t := ll.text
		w := firstWord(t)
		rest := strings.TrimSpace(t[len(w):])
		fail := func(f string, a ...interface{}) error {
			return fmt.Errorf("%s:%d: %s", path, ll.line, fmt.Sprintf(f, a...))
		}
		if itemKw[w] {
			curF, curL = nil, nil
			autoLabel = 0
		}
		switch w {
		case "spec", "uninterp":
			// spec func name(params) type = expr ; spec pred name(params) = expr
			// uninterp func name(params) type
			kw := firstWord(rest)
			rest2 := strings.TrimSpace(rest[len(kw):])
			k := strings.Index(rest2, "(")
			if k < 0 {
				return nil, fail("bad spec")
			}
			sf := &SpecFunc{Name: strings.TrimSpace(rest2[:k]), Line: ll.line, File: path}
			e := matchParen(rest2, k)
			sf.Params = parseParams(rest2[k+1 : e])
			after := strings.TrimSpace(rest2[e+1:])
			if w == "uninterp" {
				sf.Uninterp = true
				sf.Result = after
				if kw == "pred" {
					sf.Result = "bool"
				}
			} else {
				eq := strings.Index(after, "=")
				if eq < 0 {
					return nil, fail("spec without body")
				}
				sf.Result = strings.TrimSpace(after[:eq])
				if kw == "pred" || sf.Result == "" {
					sf.Result = "bool"
				}
				sf.Text = strings.TrimSpace(after[eq+1:])
				ex, err := parseExpr(sf.Text)
				if err != nil {
					return nil, fail("%v", err)
				}
				sf.Body = ex
			}
			cf.Specs = append(cf.Specs, sf)
		case "lemma":
			k := strings.Index(rest, "(")
			e := matchParen(rest, k)
			curL = &Lemma{Name: strings.TrimSpace(rest[:k]), Params: parseParams(rest[k+1 : e]), Line: ll.line, File: path}
			cf.Lemmas = append(cf.Lemmas, curL)
		case "func", "interface", "trusted":
			sig := rest
			if w == "trusted" {
				sig = strings.TrimSpace(strings.TrimPrefix(rest, "func"))
			}
			fc, err := parseSignature(w, sig)
			if err != nil {
				return nil, fail("%v", err)
			}
			fc.File, fc.Line = path, ll.line
			curF = fc
			cf.Funcs = append(cf.Funcs, fc)
		case "guarded_by":
			parts := strings.SplitN(rest, ":", 2)
			if len(parts) != 2 {
				return nil, fail("bad guarded_by")
			}
			g := GuardedBy{Mutex: strings.TrimSpace(parts[0])}
			for _, f := range strings.Split(parts[1], ",") {
				g.Fields = append(g.Fields, strings.TrimSpace(f))
			}
			cf.Guarded = append(cf.Guarded, g)
		case "writers", "sends", "recvs", "selectsends", "callsites", "invokes", "closureuse":
			k := strings.LastIndex(rest, ":")
			if k < 0 {
				return nil, fail("bad %s declaration", w)
			}
			sd := SiteDecl{Kind: w, Subject: strings.TrimSpace(rest[:k]), Line: ll.line}
			for _, f := range splitTop(rest[k+1:], ',') {
				if f = strings.TrimSpace(f); f != "" && f != "nothing" {
					sd.Allowed = append(sd.Allowed, f)
				}
			}
			cf.Sites = append(cf.Sites, sd)
		case "monitor":
			k := strings.IndexAny(rest, " \t")
			if k < 0 {
				return nil, fail("bad monitor declaration")
			}
			c, err := parseClauseExpr("monitor", strings.TrimSpace(rest[k+1:]), ll.line, path)
			if err != nil {
				return nil, err
			}
			if c.Label == "" {
				c.Label = fmt.Sprintf("inv%d", len(cf.Monitors)+1)
			}
			cf.Monitors = append(cf.Monitors, MonitorInv{Mutex: rest[:k], Label: c.Label, Text: c.Text, E: c.E})
		case "functype":
			sig := rest
			name := ""
			if strings.HasPrefix(sig, "\"") {
				k := strings.Index(sig[1:], "\"")
				name = sig[1 : 1+k]
				sig = "ft" + strings.TrimSpace(sig[k+2:])
			} else {
				k := strings.Index(sig, "(")
				if k < 0 {
					return nil, fail("bad functype")
				}
				name = "@" + strings.TrimSpace(sig[:k]) // @: package-local named type
				sig = "ft" + sig[k:]
			}
			fc, err := parseSignature("func", sig)
			if err != nil {
				return nil, fail("%v", err)
			}
			fc.Key = "functype:" + name
			fc.File, fc.Line = path, ll.line
			curF = fc
			cf.Funcs = append(cf.Funcs, fc)
		case "immutable":
			for _, f := range strings.Split(rest, ",") {
				cf.Immutable = append(cf.Immutable, strings.TrimSpace(f))
			}
		case "ghost":
			if curF == nil && curL == nil {
				k := strings.IndexAny(rest, " \t")
				if k < 0 {
					return nil, fail("bad ghost")
				}
				cf.Ghosts = append(cf.Ghosts, GhostVar{Name: rest[:k], Type: strings.TrimSpace(rest[k+1:])})
			}
		case "global":
			k := strings.IndexAny(rest, " \t")
			c, err := parseClauseExpr("global", strings.TrimSpace(rest[k+1:]), ll.line, path)
			if err != nil {
				return nil, err
			}
			cf.Globals = append(cf.Globals, GlobalInv{Name: rest[:k], Label: c.Label, Text: c.Text, E: c.E})
		case "axiom":
			c, err := parseClauseExpr("axiom", rest, ll.line, path)
			if err != nil {
				return nil, err
			}
			cf.Axioms = append(cf.Axioms, c)
		case "requires", "ensures":
			c, err := parseClauseExpr(w, rest, ll.line, path)
			if err != nil {
				return nil, err
			}
			if c.Label == "" {
				autoLabel++
				c.Label = fmt.Sprintf("%s%d", w[:3], autoLabel)
			}
			if curF != nil {
				if w == "requires" {
					curF.Requires = append(curF.Requires, c)
				} else {
					curF.Ensures = append(curF.Ensures, c)
				}
			} else if curL != nil {
				if w == "requires" {
					curL.Requires = append(curL.Requires, c)
				} else {
					curL.Ensures = append(curL.Ensures, c)
				}
			} else {
				return nil, fail("clause outside item")
			}
		case "ghostreset":
			if curF == nil {
				return nil, fail("ghostreset outside func")
			}
			for _, n := range splitTop(rest, ',') {
				curF.GhostResets = append(curF.GhostResets, strings.TrimSpace(n))
			}
		case "ghostlocal":
			if curF == nil {
				return nil, fail("ghostlocal outside func")
			}
			if k := strings.IndexAny(rest, " \t"); k < 0 {
				return nil, fail("bad ghostlocal")
			} else {
				curF.GhostLocals = append(curF.GhostLocals, Param{Name: rest[:k], Type: strings.TrimSpace(rest[k+1:])})
			}
		case "ghostresult":
			if curF == nil {
				return nil, fail("ghostresult outside func")
			}
			k := strings.IndexAny(rest, " \t")
			if k < 0 {
				return nil, fail("bad ghostresult")
			}
			curF.GhostResults = append(curF.GhostResults, Param{Name: rest[:k], Type: strings.TrimSpace(rest[k+1:])})
		case "ghostdef":
			if curF == nil {
				return nil, fail("ghostdef outside func")
			}
			eq := strings.Index(rest, ":=")
			if eq < 0 {
				return nil, fail("ghostdef needs :=")
			}
			te, err := parseExpr(strings.TrimSpace(rest[:eq]))
			if err != nil {
				return nil, fail("%v", err)
			}
			ve, err := parseExpr(strings.TrimSpace(rest[eq+2:]))
			if err != nil {
				return nil, fail("%v", err)
			}
			curF.GhostDefs = append(curF.GhostDefs, AtItem{What: "ghostdef", Target: te, E: ve, Text: rest})
		case "assumes":
			if curF == nil {
				return nil, fail("assumes outside func")
			}
			c, err := parseClauseExpr(w, rest, ll.line, path)
			if err != nil {
				return nil, err
			}
			if c.Label == "" {
				c.Label = fmt.Sprintf("asm%d", len(curF.Assumes)+1)
			}
			curF.Assumes = append(curF.Assumes, c)
		case "hint":
			if curF == nil {
				return nil, fail("hint outside func")
			}
			if strings.TrimSpace(rest) == "forward-frames" {
				curF.ForwardFrames = true
			} else {
				return nil, fail("unknown hint %q", rest)
			}
		case "ghostset":
			if curF == nil {
				return nil, fail("ghostset outside func")
			}
			pointwise := false
			if strings.HasPrefix(rest, "pointwise ") {
				pointwise = true
				rest = strings.TrimSpace(rest[len("pointwise "):])
			}
			eq := strings.Index(rest, ":=")
			if eq < 0 {
				return nil, fail("ghostset needs :=")
			}
			te, err := parseExpr(strings.TrimSpace(rest[:eq]))
			if err != nil {
				return nil, fail("%v", err)
			}
			ve, err := parseExpr(strings.TrimSpace(rest[eq+2:]))
			if err != nil {
				return nil, fail("%v", err)
			}
			curF.GhostSets = append(curF.GhostSets, AtItem{What: "ghostset", Target: te, E: ve, Text: rest, Pointwise: pointwise})
		case "preserves":
			if curF == nil {
				return nil, fail("preserves outside func")
			}
			c, err := parseClauseExpr(w, rest, ll.line, path)
			if err != nil {
				return nil, err
			}
			if c.Label == "" {
				c.Label = fmt.Sprintf("pres%d", len(curF.Preserves)+1)
			}
			curF.Preserves = append(curF.Preserves, c)
			// an invariant is both a precondition and a postcondition of the function itself
			rq := c
			rq.Label = "preserves-" + c.Label
			curF.Requires = append(curF.Requires, rq)
			curF.Ensures = append(curF.Ensures, rq)
		case "calls":
			if curF == nil {
				return nil, fail("calls outside func")
			}
			for _, n := range splitTop(rest, ',') {
				curF.Calls = append(curF.Calls, strings.TrimSpace(n))
			}
		case "modifies", "assigns":
			if curF == nil {
				return nil, fail("modifies outside func")
			}
			curF.HasMod = true
			for _, part := range splitTop(rest, ',') {
				if part == "nothing" {
					continue
				}
				if part == "everything" {
					curF.ModAll = true
					continue
				}
				if part == "heap" {
					curF.ModHeap = true
					continue
				}
				if part == "allghosts" {
					curF.ModGhosts = true
					continue
				}
				if strings.HasPrefix(part, "heap-except(") && strings.HasSuffix(part, ")") {
					curF.ModHeap = true
					for _, x := range splitTop(part[len("heap-except("):len(part)-1], ',') {
						e, err := parseExpr(x)
						if err != nil {
							return nil, fail("%v", err)
						}
						curF.ModExcept = append(curF.ModExcept, e)
					}
					continue
				}
				e, err := parseExpr(part)
				if err != nil {
					return nil, fail("%v", err)
				}
				curF.Modifies = append(curF.Modifies, e)
				curF.ModText = append(curF.ModText, part)
			}
		case "decreases":
			if curF == nil {
				return nil, fail("decreases outside func")
			}
			e, err := parseExpr(rest)
			if err != nil {
				return nil, fail("%v", err)
			}
			curF.Decr = e
		case "wrapping":
			if curF == nil {
				return nil, fail("wrapping outside func")
			}
			curF.Wrapping = true
		case "partial":
			if curF == nil {
				return nil, fail("partial outside func")
			}
			curF.Partial = true
		case "pure":
			if curF != nil {
				curF.Pure = true
			}
		case "opaque":
			if curF != nil {
				curF.Opaque = true
			}
		case "loop":
			if curF == nil {
				return nil, fail("loop outside func")
			}
			f := strings.Fields(rest)
			if len(f) < 2 {
				return nil, fail("bad loop clause")
			}
			n, err := strconv.Atoi(f[0])
			if err != nil {
				return nil, fail("bad loop number")
			}
			body := strings.TrimSpace(rest[strings.Index(rest, f[1])+len(f[1]):])
			switch f[1] {
			case "invariant":
				c, err := parseClauseExpr("invariant", body, ll.line, path)
				if err != nil {
					return nil, err
				}
				if c.Label == "" {
					c.Label = fmt.Sprintf("inv%d", len(curF.LoopInv[n])+1)
				}
				curF.LoopInv[n] = append(curF.LoopInv[n], c)
			case "decreases":
				e, err := parseExpr(body)
				if err != nil {
					return nil, fail("%v", err)
				}
				curF.LoopDec[n] = e
			default:
				return nil, fail("unknown loop clause %q", f[1])
			}
		case "at":
			if curF == nil {
				return nil, fail("at outside func")
			}
			// at <anchor words> (use|assert|assume) ...
			idx := -1
			what := ""
			for _, kw := range []string{" use ", " assert ", " ghost ", " bind ", " hint "} {
				if k := strings.Index(rest, kw); k >= 0 && (idx < 0 || k < idx) {
					idx = k
					what = strings.TrimSpace(kw)
				}
			}
			if idx < 0 {
				return nil, fail("bad at clause")
			}
			ai := AtItem{Anchor: strings.TrimSpace(rest[:idx]), What: what}
			body := strings.TrimSpace(rest[idx+len(what)+2:])
			if what == "ghost" {
				eq := strings.Index(body, ":=")
				if eq < 0 {
					return nil, fail("ghost assignment needs :=")
				}
				te, err := parseExpr(strings.TrimSpace(body[:eq]))
				if err != nil {
					return nil, fail("%v", err)
				}
				ai.Target = te
				body = strings.TrimSpace(body[eq+2:])
			}
			if what == "bind" {
				ai.Text = body
				curF.At = append(curF.At, ai)
				continue
			}
			c, err := parseClauseExpr(what, body, ll.line, path)
			if err != nil {
				return nil, err
			}
			ai.Label, ai.Text, ai.E = c.Label, c.Text, c.E
			curF.At = append(curF.At, ai)
		case "use":
			if curL == nil {
				return nil, fail("use outside lemma (use 'at <anchor> use' in functions)")
			}
			for _, part := range splitTop(rest, ',') {
				e, err := parseExpr(part)
				if err != nil {
					return nil, fail("%v", err)
				}
				curL.Uses = append(curL.Uses, e)
			}
		case "by":
			if curL == nil {
				return nil, fail("by outside lemma")
			}
			f := strings.Fields(rest)
			if len(f) == 3 && f[0] == "induction" && f[1] == "on" {
				curL.Induct = f[2]
			} else {
				return nil, fail("expected 'by induction on <var>'")
			}
		default:
			return nil, fail("unknown keyword %q", w)
		}
	}
	return cf, nil
}
