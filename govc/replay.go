package main

// replayObligation tries to turn the failed obligation's model into a run of
// the real code. Returns true if the violation was reproduced.
func replayObligation(w *World, verif string, r *obResult, rep map[string]interface{}) bool {
	return false
}
