package main

// Translation of one ssa.Function into a passive-form VC.

import (
	"fmt"
	"go/constant"
	"go/token"
	"go/types"
	"math/big"
	"sort"
	"strings"

	"golang.org/x/tools/go/ssa"
)

type loopInfo struct {
	num     int
	header  *ssa.BasicBlock
	blocks  map[int]bool
	latches []*ssa.BasicBlock
	decr0   string // measure at the header
	frameComps []string
}

type retInfo struct {
	cond    string
	results []Val
	heap    *Heap
}

type deferInfo struct {
	block *ssa.BasicBlock
	call  *ssa.Defer
	args  []Val
	flag  string
}

type rangeState struct {
	mapVal Val
	isStr  bool
	done   string // ghost visited set (Array K Bool) component name
}

type FnTrans struct {
	vc   *VC
	w    *World
	fn   *ssa.Function
	fc   *FuncContract
	name string
	pkg  *types.Package

	vals     map[ssa.Value]Val
	order    []*ssa.BasicBlock
	pos      map[int]int
	reach    map[int]string
	outHeap  map[int]*Heap
	edge     map[[2]int]string
	isBack   map[[2]int]bool
	loops    map[int]*loopInfo // by header index
	written  map[int]map[string]bool
	loopMods map[int][]string // header index -> components to havoc (from scan pass)
	keepNext *keptSet // kept set of the next havocAll (set by havocHeapKeeping)
	loopKept map[int]*keptSet  // header index -> what every whole-heap havoc inside the loop preserves
	havocEv  map[int]*keptSet  // block index -> what the whole-heap havocs in the block preserve (scan pass)
	scan     bool

	cur        *Heap
	curBlock   *ssa.BasicBlock
	curReach   string
	entryHeap  *Heap
	entryAlloc string
	counters   map[string]int
	returns    []retInfo
	defers     []deferInfo
	debug      map[string][]*ssa.DebugRef
	paramEnv   map[string]Val
	wrapping   bool
	epoch      int
	ranges     map[ssa.Value]*rangeState
	callOrd    map[string]int
	atDone     map[int]bool
	selStates  map[ssa.Value][]Val
	masks      map[ssa.Value]uint64
	modComps   map[string]bool
	modByComp  map[string][]modTarget
	curInstr   int
	curCall    *ssa.CallCommon
	binds      map[string]Val
	pendingBind string
	lastBind    string // bind name given to the call being translated (results become <name>_r*)
	partial     bool
	refines     *FuncContract // function-type contract this closure must refine
	inlineDepth int
	inlineCtr   map[string]map[string]int // obligation counters of inlined callees (unique names)
	pendingGhost []AtItem // ghost-local updates to perform after the current call
	ghostLocals map[string]string // name -> component
	unmodelled map[ssa.Value]bool
	atOrd      map[string]int
	callOrdSrc map[*ssa.CallCommon]int
	callSites  map[string]bool // "<ordinal> <name>" of the calls in the body
	atUsed     map[int]bool
}

func (tr *FnTrans) obName(class string, label string) string {
	if label == "" {
		tr.counters[class]++
		label = fmt.Sprint(tr.counters[class])
	}
	return tr.name + "#" + class + ":" + label
}

func (tr *FnTrans) oblig(class, label, cond, desc string) {
	if tr.partial {
		// partial contract: safety obligations and callee preconditions are
		// not checked (listed as an assumption); the name is still consumed
		// so that numbering stays stable
		_ = tr.obName(class, label)
		return
	}
	tr.vc.oblig(tr.obName(class, label), class, sImp(tr.curReach, cond), desc)
}

func (tr *FnTrans) fact(cond string) {
	tr.vc.fact(sImp(tr.curReach, cond), "")
}

func (tr *FnTrans) posStr(p token.Pos) string {
	if !p.IsValid() {
		return ""
	}
	ps := tr.w.fset.Position(p)
	return fmt.Sprintf("%s:%d", strings.TrimPrefix(ps.Filename, tr.w.repo+"/"), ps.Line)
}

// ---------------------------------------------------------------- CFG analysis

func (tr *FnTrans) analyze() {
	fn := tr.fn
	// reachable blocks in reverse post order, ignoring the recover block
	visited := map[int]bool{}
	var post []*ssa.BasicBlock
	onStack := map[int]bool{}
	tr.isBack = map[[2]int]bool{}
	var dfs func(b *ssa.BasicBlock)
	dfs = func(b *ssa.BasicBlock) {
		visited[b.Index] = true
		onStack[b.Index] = true
		for _, s := range b.Succs {
			if onStack[s.Index] {
				if !s.Dominates(b) {
					panic(vcErrorf("irreducible control flow"))
				}
				tr.isBack[[2]int{b.Index, s.Index}] = true
				continue
			}
			if !visited[s.Index] {
				dfs(s)
			}
		}
		onStack[b.Index] = false
		post = append(post, b)
	}
	dfs(fn.Blocks[0])
	for i := len(post) - 1; i >= 0; i-- {
		tr.order = append(tr.order, post[i])
	}
	tr.pos = map[int]int{}
	for i, b := range tr.order {
		tr.pos[b.Index] = i
	}
	// retreating edges that are not found on the DFS stack but go backwards
	for _, b := range tr.order {
		for _, s := range b.Succs {
			if tr.pos[s.Index] <= tr.pos[b.Index] && !tr.isBack[[2]int{b.Index, s.Index}] {
				if s.Dominates(b) {
					tr.isBack[[2]int{b.Index, s.Index}] = true
				} else {
					panic(vcErrorf("irreducible control flow"))
				}
			}
		}
	}
	// natural loops
	tr.loops = map[int]*loopInfo{}
	for e := range tr.isBack {
		h := fn.Blocks[e[1]]
		li := tr.loops[h.Index]
		if li == nil {
			li = &loopInfo{header: h, blocks: map[int]bool{h.Index: true}}
			tr.loops[h.Index] = li
		}
		latch := fn.Blocks[e[0]]
		li.latches = append(li.latches, latch)
		stack := []*ssa.BasicBlock{latch}
		for len(stack) > 0 {
			b := stack[len(stack)-1]
			stack = stack[:len(stack)-1]
			if li.blocks[b.Index] {
				continue
			}
			li.blocks[b.Index] = true
			for _, p := range b.Preds {
				stack = append(stack, p)
			}
		}
	}
	for _, li := range tr.loops {
		sort.Slice(li.latches, func(i, j int) bool { return li.latches[i].Index < li.latches[j].Index })
	}
	var hs []int
	for h := range tr.loops {
		hs = append(hs, h)
	}
	sort.Slice(hs, func(i, j int) bool {
		pi, pj := tr.loopPos(tr.loops[hs[i]]), tr.loopPos(tr.loops[hs[j]])
		if pi != pj {
			return pi < pj
		}
		return hs[i] < hs[j]
	})
	for i, h := range hs {
		tr.loops[h].num = i + 1
	}
	// debug refs by name
	tr.debug = map[string][]*ssa.DebugRef{}
	for _, b := range fn.Blocks {
		for _, in := range b.Instrs {
			if d, ok := in.(*ssa.DebugRef); ok {
				if o := d.Object(); o != nil {
					tr.debug[o.Name()] = append(tr.debug[o.Name()], d)
				}
			}
		}
	}
}

// loopPos orders loops by source position of the header's first positioned
// instruction (falls back to block index).
func (tr *FnTrans) loopPos(li *loopInfo) int {
	best := token.Pos(0)
	for idx := range li.blocks {
		for _, in := range tr.fn.Blocks[idx].Instrs {
			if p := in.Pos(); p.IsValid() && (best == 0 || p < best) {
				best = p
			}
		}
	}
	return int(best)
}

// ---------------------------------------------------------------- values

func (tr *FnTrans) constVal(c *ssa.Const) Val {
	t := c.Type()
	k := kindOf(t)
	if c.Value == nil {
		z := tr.vc.zero(t)
		return z
	}
	switch k {
	case KInt:
		v := constant.ToInt(c.Value)
		bi, ok := new(big.Int).SetString(v.ExactString(), 10)
		if !ok {
			panic(vcErrorf("bad integer constant %s", c))
		}
		return Val{K: KInt, T: sBig(bi), Typ: t}
	case KBool:
		return Val{K: KBool, T: fmt.Sprint(constant.BoolVal(c.Value)), Typ: t}
	case KStr:
		return Val{K: KStr, T: tr.vc.strLit(constant.StringVal(c.Value)), Typ: t}
	case KOpaque:
		return Val{K: KOpaque, T: tr.vc.fresh("flt", sortInt), Typ: t}
	}
	panic(vcErrorf("unsupported constant %s of type %s", c, t))
}

func (tr *FnTrans) val(v ssa.Value) Val {
	switch x := v.(type) {
	case *ssa.Const:
		return tr.constVal(x)
	case *ssa.Global:
		et := x.Type().Underlying().(*types.Pointer).Elem()
		if kindOf(et) == KStruct {
			name := qsym("glob$" + shortPkg(x.Pkg.Pkg.Path()) + "." + x.Name())
			tr.vc.declConst(name, sortInt)
			tr.vc.decl("globneg:"+name, "(assert (< "+name+" 0))")
			return Val{K: KRef, T: name, Typ: x.Type()}
		}
		if _, isArr := et.Underlying().(*types.Array); isArr {
			// package-level array: an array object of its own (its elements
			// are unknown unless a contract says something about them)
			name := qsym("globarr$" + shortPkg(x.Pkg.Pkg.Path()) + "." + x.Name())
			tr.vc.declConst(name, sortInt)
			tr.vc.decl("globarr:"+name, "(assert (and (< 0 "+name+") (< "+name+" "+tr.entryAlloc+")))")
			return Val{K: KRef, T: name, Typ: x.Type()}
		}
		comp := tr.vc.globalComp(shortPkg(x.Pkg.Pkg.Path()), x.Name(), et)
		return Val{K: KPtr, Typ: x.Type(), Loc: &Loc{Comp: comp, Sort: tr.vc.scalarSort(et), Idx: "0"}}
	case *ssa.Function:
		name := qsym("fn$" + x.String())
		tr.vc.declConst(name, sortInt)
		tr.vc.decl("fnneg:"+name, "(assert (< "+name+" 0))")
		return Val{K: KRef, T: name, Typ: x.Type()}
	case *ssa.Builtin:
		panic(vcErrorf("builtin %s used as a value", x.Name()))
	}
	r, ok := tr.vals[v]
	if !ok {
		panic(vcErrorf("value %s (%T) used before definition", v.Name(), v))
	}
	return r
}

// define binds an SSA value to a fresh constant equal to term (keeps the
// formulas small and the models readable).
func (tr *FnTrans) define(v ssa.Value, val Val) {
	switch val.K {
	case KInt, KBool, KStr, KSlice, KRef, KIface, KOpaque:
		if (val.K == KSlice && strings.HasPrefix(val.T, "(mk-slice ")) || (val.K == KIface && strings.HasPrefix(val.T, "(mk-iface ")) {
			// keep constructor terms literal: accessors simplify syntactically
			val.T = simplifyTerm(val.T)
			break
		}
		if !isSimpleTerm(val.T) {
			n := tr.vc.fresh(tr.ssaName(v), kindSort(val.K))
			tr.vc.fact(sEq(n, val.T), "")
			val.T = n
		}
	}
	tr.vals[v] = val
}

func (tr *FnTrans) ssaName(v ssa.Value) string { return "v$" + v.Name() }

func isSimpleTerm(t string) bool {
	return !strings.ContainsAny(t, " (")
}

func (tr *FnTrans) freshVal(prefix string, t types.Type) Val {
	k := kindOf(t)
	switch k {
	case KStruct:
		s := t.Underlying().(*types.Struct)
		v := Val{K: KStruct, Typ: t}
		for i := 0; i < s.NumFields(); i++ {
			v.Fields = append(v.Fields, tr.freshVal(prefix+"."+s.Field(i).Name(), s.Field(i).Type()))
		}
		return v
	case KTuple:
		tp := t.(*types.Tuple)
		v := Val{K: KTuple, Typ: t}
		for i := 0; i < tp.Len(); i++ {
			v.Fields = append(v.Fields, tr.freshVal(fmt.Sprintf("%s.%d", prefix, i), tp.At(i).Type()))
		}
		return v
	case KPtr:
		n := tr.vc.fresh(prefix, sortInt)
		et := t.Underlying().(*types.Pointer).Elem()
		return Val{K: KPtr, T: n, Typ: t, Loc: &Loc{Comp: tr.vc.cellComp(et), Sort: tr.vc.scalarSort(et), Idx: n}}
	}
	return Val{K: k, T: tr.vc.fresh(prefix, kindSort(k)), Typ: t}
}

func (tr *FnTrans) iteVal(c string, a, b Val) Val {
	switch a.K {
	case KStruct, KTuple:
		v := Val{K: a.K, Typ: a.Typ}
		for i := range a.Fields {
			v.Fields = append(v.Fields, tr.iteVal(c, a.Fields[i], b.Fields[i]))
		}
		return v
	case KPtr:
		if a.T != "" && b.T != "" {
			if a.T == b.T {
				return a
			}
			if a.Loc != nil && b.Loc != nil && a.Loc.Comp == b.Loc.Comp && a.Loc.Idx2 == "" && b.Loc.Idx2 == "" {
				t := sIte(c, a.T, b.T)
				return Val{K: KPtr, T: t, Typ: a.Typ, Loc: &Loc{Comp: a.Loc.Comp, Sort: a.Loc.Sort, Idx: sIte(c, a.Loc.Idx, b.Loc.Idx)}}
			}
		}
		if a.Loc != nil && b.Loc != nil && *a.Loc == *b.Loc {
			return a
		}
		panic(vcErrorf("merge of scalar pointers with different locations"))
	}
	r := a
	r.T = sIte(c, a.T, b.T)
	r.Known = 0
	return r
}

// ---------------------------------------------------------------- heap merge

func (tr *FnTrans) mergeHeaps(conds []string, heaps []*Heap) *Heap {
	if len(heaps) == 1 {
		return heaps[0].clone()
	}
	comps := map[string]bool{}
	for _, h := range heaps {
		for c := range h.m {
			comps[c] = true
		}
	}
	// heaps with different epochs: components absent from a map resolve to
	// that heap's epoch base, so they must be materialised
	res := newHeap(heaps[0].epoch)
	sameEpoch := true
	for _, h := range heaps {
		if h.epoch != res.epoch {
			sameEpoch = false
		}
	}
	if !sameEpoch {
		for c := range tr.vc.compSort {
			comps[c] = true
		}
		tr.epoch++
		res = newHeap(tr.newEpoch())
	}
	var names []string
	for c := range comps {
		names = append(names, c)
	}
	sort.Strings(names)
	get := func(h *Heap, c string) string {
		if strings.HasPrefix(c, "D$") { // defer flags start out false
			if v, ok := h.m[c]; ok {
				return v
			}
			return "false"
		}
		return tr.vc.hget(h, c)
	}
	for _, c := range names {
		first := get(heaps[0], c)
		same := true
		for _, h := range heaps[1:] {
			if get(h, c) != first {
				same = false
			}
		}
		if same {
			res.m[c] = first
			continue
		}
		term := get(heaps[len(heaps)-1], c)
		for i := len(heaps) - 2; i >= 0; i-- {
			term = sIte(conds[i], get(heaps[i], c), term)
		}
		n := tr.vc.fresh(c+"@m", tr.vc.compSort[c])
		tr.vc.fact(sEq(n, term), "")
		res.m[c] = n
	}
	return res
}

var globalEpoch int

func (tr *FnTrans) newEpoch() int {
	globalEpoch++
	return globalEpoch
}

// havocAll forgets everything about the heap (call without contract).
func (tr *FnTrans) havocAll() {
	tr.vc.compDecl(compAlloc, sortInt)
	oldAlloc := tr.vc.hget(tr.cur, compAlloc)
	prev := tr.cur
	tr.cur = newHeap(tr.newEpoch())
	// function-private components survive: defer flags, non-escaping local
	// structs, range iteration state
	for c := range tr.vc.compSort {
		switch {
		case strings.HasPrefix(c, "D$"):
			if v, ok := prev.m[c]; ok {
				tr.cur.m[c] = v
			}
		case strings.HasPrefix(c, "L$"), strings.HasPrefix(c, "R$"):
			tr.cur.m[c] = tr.vc.hget(prev, c)
		}
	}
	na := tr.vc.hget(tr.cur, compAlloc)
	tr.fact(sLe(oldAlloc, na))
	tr.markAllWritten()
	if tr.keepNext != nil {
		tr.noteHavoc(tr.keepNext)
		tr.keepNext = nil
	} else {
		tr.noteHavoc(&keptSet{ghostMod: map[string]bool{}, comps: map[string]bool{}})
	}
}

// keptSet describes what a whole-heap havoc preserves: all ghost components
// except ghostMod (if ghosts) and the listed heap components.
type keptSet struct {
	ghosts   bool
	ghostMod map[string]bool
	comps    map[string]bool
}

func (k *keptSet) meet(o *keptSet) *keptSet {
	r := &keptSet{ghosts: k.ghosts && o.ghosts, ghostMod: map[string]bool{}, comps: map[string]bool{}}
	for c := range k.ghostMod {
		r.ghostMod[c] = true
	}
	for c := range o.ghostMod {
		r.ghostMod[c] = true
	}
	for c := range k.comps {
		if o.comps[c] {
			r.comps[c] = true
		}
	}
	return r
}

func (tr *FnTrans) noteHavoc(k *keptSet) {
	if tr.havocEv == nil {
		tr.havocEv = map[int]*keptSet{}
	}
	b := tr.curBlock.Index
	if old, ok := tr.havocEv[b]; ok {
		tr.havocEv[b] = old.meet(k)
	} else {
		tr.havocEv[b] = k
	}
}

// havocHeapKeeping: whole-heap havoc that preserves the ghost state (except
// the listed ghost components, which the caller havocs itself) and the
// excepted heap components.
func (tr *FnTrans) havocHeapKeeping(excepted map[string]bool, ghostMod map[string]bool) {
	vc := tr.vc
	keep := map[string]string{}
	for c := range vc.compSort {
		if strings.HasPrefix(c, "G$") || excepted[c] {
			keep[c] = vc.hget(tr.cur, c)
		}
	}
	ks := &keptSet{ghosts: true, ghostMod: map[string]bool{}, comps: map[string]bool{}}
	for c := range ghostMod {
		ks.ghostMod[c] = true
	}
	for c := range excepted {
		ks.comps[c] = true
	}
	tr.keepNext = ks
	tr.havocAll()
	for c, v := range keep {
		tr.cur.m[c] = v
	}
}

func (tr *FnTrans) markAllWritten() {
	if tr.written[tr.curBlock.Index] == nil {
		tr.written[tr.curBlock.Index] = map[string]bool{}
	}
	tr.written[tr.curBlock.Index]["*"] = true
}

// bumpAlloc models allocation inside a callee.
func (tr *FnTrans) bumpAlloc() {
	tr.vc.compDecl(compAlloc, sortInt)
	old := tr.vc.hget(tr.cur, compAlloc)
	n := tr.vc.fresh("$alloc", sortInt)
	tr.vc.fact(sLe(old, n), "")
	tr.cur.m[compAlloc] = n
	tr.ghostZeroBeyond(n)
}

// ghostZeroBeyond: ghost maps keyed by references that have just been
// havoced (effects of a callee or of loop iterations) have the zero value for
// objects that do not exist yet (same convention as at function entry).
func (tr *FnTrans) ghostZeroBeyond(alloc string) {
	vc := tr.vc
	pend := vc.freshGhosts
	vc.freshGhosts = nil
	for _, cv := range pend {
		name := strings.TrimPrefix(cv[0], "G$")
		g, ok := tr.w.ghosts[name]
		if !ok {
			continue
		}
		gt := strings.ReplaceAll(g.Type, " ", "")
		isLock := strings.HasPrefix(gt, "map[lock]")
		if !strings.HasPrefix(gt, "map[ref]") && !isLock {
			continue
		}
		es := ghostSort(gt[strings.Index(gt, "]")+1:])
		zero := "0"
		if es == sortBool {
			zero = "false"
		} else if es != sortInt {
			continue
		}
		idx := "i"
		if isLock {
			idx = fmt.Sprintf("(div i %d)", lockStride)
		}
		vc.fact(fmt.Sprintf("(forall ((i Int)) (! (=> (>= %s %s) (= (select %s i) %s)) :pattern ((select %s i))))", idx, alloc, cv[1], zero, cv[1]), "")
	}
}

// ---------------------------------------------------------------- driver

type vcResult struct {
	vc  *VC
	err error
}

func (w *World) translate(fn *ssa.Function, fc *FuncContract) (vc *VC, err error) {
	var seed map[string]string
	var loopKeptSeed map[int]*keptSet
	run := func(scan bool, mods map[int][]string) (tr *FnTrans, err error) {
		vc := newVC(w, fnDisplayName(fn))
		for c, s := range seed {
			vc.compSort[c] = s
		}
		tr = &FnTrans{vc: vc, w: w, fn: fn, fc: fc, name: fnDisplayName(fn), scan: scan, loopMods: mods}
		if !scan {
			tr.loopKept = loopKeptSeed
		}
		if fn.Pkg != nil {
			tr.pkg = fn.Pkg.Pkg
		} else if fn.Parent() != nil && fn.Parent().Pkg != nil {
			tr.pkg = fn.Parent().Pkg.Pkg
		}
		defer func() {
			if r := recover(); r != nil {
				if ve, ok := r.(vcError); ok {
					err = fmt.Errorf("%s: %s", tr.name, ve.msg)
					return
				}
				panic(r)
			}
		}()
		tr.run()
		return tr, nil
	}
	t1, err := run(true, nil)
	if err != nil {
		return nil, err
	}
	seed = t1.vc.compSort
	mods := map[int][]string{}
	for h, li := range t1.loops {
		set := map[string]bool{}
		for b := range li.blocks {
			for c := range t1.written[b] {
				set[c] = true
			}
		}
		var cs []string
		for c := range set {
			cs = append(cs, c)
		}
		sort.Strings(cs)
		mods[h] = cs
	}
	kept := map[int]*keptSet{}
	for h, li := range t1.loops {
		var k *keptSet
		for b := range li.blocks {
			if ev, ok := t1.havocEv[b]; ok {
				if k == nil {
					k = ev
				} else {
					k = k.meet(ev)
				}
			}
		}
		if k != nil {
			kept[h] = k
		}
	}
	loopKeptSeed = kept
	t2, err := run(false, mods)
	if err != nil {
		return nil, err
	}
	return t2.vc, nil
}

func (tr *FnTrans) run() {
	fn := tr.fn
	if len(fn.Blocks) == 0 {
		panic(vcErrorf("function has no body"))
	}
	tr.vals = map[ssa.Value]Val{}
	tr.reach = map[int]string{}
	tr.outHeap = map[int]*Heap{}
	tr.edge = map[[2]int]string{}
	tr.written = map[int]map[string]bool{}
	tr.counters = map[string]int{}
	tr.ranges = map[ssa.Value]*rangeState{}
	tr.callOrd = map[string]int{}
	tr.atOrd = map[string]int{}
	tr.binds = map[string]Val{}
	tr.atUsed = map[int]bool{}
	tr.selStates = map[ssa.Value][]Val{}
	tr.analyze()
	if tr.fc != nil && tr.fc.Partial {
		tr.partial = true
		tr.vc.assume("PARTIAL contract of " + tr.name + ": only its stated assertions, invariants and postconditions are checked; run-time safety, callee preconditions, lock discipline inside it and the components its modifies clause excepts (heap-except) are NOT checked (bounded stand-in, not counted as proved)")
	}
	if tr.fc != nil {
		tr.wrapping = tr.fc.Wrapping
		if len(tr.fc.Calls) > 0 {
			tr.pureBody()
		}
	}
	vc := tr.vc
	vc.compDecl(compAlloc, sortInt)
	tr.entryHeap = newHeap(tr.newEpoch())
	tr.cur = tr.entryHeap.clone()
	tr.entryAlloc = vc.hget(tr.cur, compAlloc)
	tr.curReach = "true"
	tr.curBlock = fn.Blocks[0]

	// parameters
	tr.paramEnv = map[string]Val{}
	var pnames []string
	if tr.fc != nil {
		if fn.Signature.Recv() != nil {
			pnames = append(pnames, tr.fc.RecvName)
		}
		for _, p := range tr.fc.Params {
			pnames = append(pnames, p.Name)
		}
		if len(pnames) != len(fn.Params) {
			panic(vcErrorf("contract lists %d parameters, function has %d", len(pnames), len(fn.Params)))
		}
	}
	for i, p := range fn.Params {
		v := tr.freshVal("p$"+p.Name(), p.Type())
		tr.vals[p] = v
		vc.fact(vc.typeFacts(tr.cur, v), "")
		tr.paramEnv[p.Name()] = v
		if pnames != nil && pnames[i] != "" {
			tr.paramEnv[pnames[i]] = v
		}
		if i == 0 && fn.Signature.Recv() != nil && v.K == KRef {
			// implicit precondition: pointer receivers are non-nil
			vc.fact(sNot(sEq(v.T, "0")), "receiver non-nil")
		}
	}
	for _, fv := range fn.FreeVars {
		v := tr.freshVal("fv$"+fv.Name(), fv.Type())
		tr.vals[fv] = v
		vc.fact(vc.typeFacts(tr.cur, v), "")
		if v.K == KRef || v.K == KPtr {
			vc.fact(sNot(sEq(v.T, "0")), "captured variable cell non-nil")
		}
		tr.paramEnv[fv.Name()] = v
	}
	// requires
	if tr.fc != nil {
		ec := tr.specCtx(tr.cur, nil, nil)
		tr.refines = tr.w.refinementTarget(fn)
		var fhyp []string
		if tr.refines != nil && !tr.scan {
			fec := tr.refineCtx(tr.cur, nil, nil)
			for _, c := range tr.refines.Requires {
				fhyp = append(fhyp, fec.evalBool(c.E))
			}
		}
		for _, c := range tr.fc.Requires {
			if tr.refines != nil && !tr.scan && mentionsNames(c.E, tr.ownParamNames()) {
				// refinement: a caller that knows only the function type's
				// contract establishes the closure's own parameter conditions
				vc.oblig(tr.name+"#refines-pre:"+c.Label, "refines", sImp(sAnd(fhyp...), ec.evalBool(c.E)),
					"the function type's preconditions imply the closure's precondition: "+c.Text)
			}
			vc.fact(ec.evalBool(c.E), "requires "+c.Label)
			tr.masksFromRequires(c.E, pnames)
		}
	}
	tr.globalFacts()
	// ghost maps keyed by references (map[ref]T): entries of objects that do
	// not exist yet have the zero value (a mutex inside a not yet allocated
	// object is not held, a channel not yet made is not closed)
	var gnames []string
	for n := range tr.w.ghosts {
		gnames = append(gnames, n)
	}
	sort.Strings(gnames)
	for _, n := range gnames {
		g := tr.w.ghosts[n]
		gt := strings.ReplaceAll(g.Type, " ", "")
		isLock := strings.HasPrefix(gt, "map[lock]")
		if !strings.HasPrefix(gt, "map[ref]") && !isLock {
			continue
		}
		es := ghostSort(gt[strings.Index(gt, "]")+1:])
		zero := "0"
		if es == sortBool {
			zero = "false"
		} else if es != sortInt {
			continue
		}
		vc.compDecl(ghostComp(n), arrSort(sortInt, es))
		h0 := vc.hget(tr.cur, ghostComp(n))
		idx := "i"
		if isLock {
			idx = fmt.Sprintf("(div i %d)", lockStride) // typed lock address: owner ref * lockStride + uid
		}
		vc.fact(fmt.Sprintf("(forall ((i Int)) (! (=> (>= %s %s) (= (select %s i) %s)) :pattern ((select %s i))))", idx, tr.entryAlloc, h0, zero, h0), "")
	}
	tr.modComps = map[string]bool{}
	tr.modByComp = map[string][]modTarget{}
	if tr.fc != nil && !tr.fc.ModAll {
		ec := tr.specCtx(tr.entryHeap, tr.entryHeap, nil)
		for _, m := range tr.fc.Modifies {
			for _, t := range tr.modTargets(ec, m) {
				tr.modComps[t.comp] = true
				tr.modByComp[t.comp] = append(tr.modByComp[t.comp], t)
			}
		}
	}

	if tr.fc != nil {
		// a binding that names no call of the body: that call is never executed
		tr.callOrdinal("")
		for _, ai := range tr.fc.At {
			f := strings.Fields(ai.Anchor)
			if ai.What == "bind" && len(f) == 3 && f[0] == "call" && !tr.callSites[f[1]+" "+f[2]] {
				tr.binds[ai.Text] = Val{K: KBool, T: "false", Typ: types.Typ[types.Bool]}
			}
		}
	}
	tr.ghostLocals = map[string]string{}
	if tr.fc != nil {
		for _, gl := range tr.fc.GhostLocals {
			comp := "L$ghost$" + gl.Name
			srt := ghostSort(gl.Type)
			vc.compDecl(comp, srt)
			n := vc.fresh(comp+"@0", srt)
			vc.fact(sEq(n, zeroOfSort(srt)), "")
			tr.cur.m[comp] = n
			tr.ghostLocals[gl.Name] = comp
		}
	}
	if tr.fc != nil {
		for _, name := range tr.fc.GhostResets {
			g, ok := tr.w.ghosts[name]
			if !ok {
				panic(vcErrorf("ghostreset: %s is not a ghost variable", name))
			}
			comp := ghostComp(name)
			srt := ghostSort(g.Type)
			vc.compDecl(comp, srt)
			n := vc.fresh(comp+"@r", srt)
			vc.fact(sEq(n, zeroOfSort(srt)), "")
			tr.cur.m[comp] = n
		}
	}
	for _, b := range tr.order {
		tr.block(b)
	}
	tr.exit()
}

// zeroOfSort: the zero value of a ghost sort (maps: everywhere zero).
func zeroOfSort(srt string) string {
	switch srt {
	case sortInt:
		return "0"
	case sortBool:
		return "false"
	}
	if strings.HasPrefix(srt, "(Array") {
		_, es := splitArrSort(srt)
		return fmt.Sprintf("((as const %s) %s)", srt, zeroOfSort(es))
	}
	panic(vcErrorf("ghostlocal: no zero value for sort %s", srt))
}

// afterCall performs the ghost-local updates anchored at the call that has
// just been translated: `at call <n> <f> ghost x[q] := e` (pointwise) or
// `ghost x := e`. The expression may use the call's bind name and the
// callee's ghost results (<bind>_<result>), locals, and rangekey.
func (tr *FnTrans) afterCall(items []AtItem) {
	vc := tr.vc
	for _, ai := range items {
		if ai.What == "hint" {
			// proved here (after the call and the ghost updates before it in
			// the contract), then available as a fact
			ec := tr.specCtx(tr.cur, tr.entryHeap, nil)
			at := tr.curBlock
			heap := tr.cur
			ec.lookup = func(name string) (Val, bool) { return tr.lookupLocal(name, at, heap) }
			t := sImp(tr.curReach, ec.evalBool(ai.E))
			vc.oblig(fmt.Sprintf("%s#assert:%s", tr.name, ai.Label), "assert", t, "assertion after "+ai.Anchor+": "+ai.Text)
			vc.fact(t, "")
			continue
		}
		var gname, qname string
		if ix, ok := ai.Target.(*EIndex); ok {
			if id, ok2 := ix.X.(*EIdent); ok2 {
				gname = id.Name
			}
			if id, ok2 := ix.I.(*EIdent); ok2 {
				qname = id.Name
			}
		} else if id, ok := ai.Target.(*EIdent); ok {
			gname = id.Name
		}
		comp, ok := tr.ghostLocals[gname]
		if !ok {
			panic(vcErrorf("at %s ghost: %s is not a ghostlocal", ai.Anchor, gname))
		}
		srt := vc.compSort[comp]
		ec := tr.specCtx(tr.cur, tr.entryHeap, nil)
		at := tr.curBlock
		heap := tr.cur
		ec.lookup = func(name string) (Val, bool) { return tr.lookupLocal(name, at, heap) }
		n := vc.fresh(comp+"@u", srt)
		if qname == "" {
			v := ec.eval(ai.E)
			vc.fact(sEq(n, v.T), "")
		} else {
			ks, _ := splitArrSort(srt)
			qv := Val{K: sortKind(ks), T: qsym("gq$" + qname), Sort: ks}
			if qv.K == KStr {
				qv.Typ = types.Typ[types.String]
			}
			ec.env[qname] = qv
			v := ec.eval(ai.E)
			// instantiated by reads of the new and of the previous version
			// (an accumulator's old elements stay in it)
			prev := vc.hget(tr.cur, comp)
			vc.fact(fmt.Sprintf("(forall ((%s %s)) (! (= (select %s %s) %s) :pattern ((select %s %s)) :pattern ((select %s %s))))", qv.T, ks, n, qv.T, v.T, n, qv.T, prev, qv.T), "")
		}
		tr.cur.m[comp] = n
	}
}

// specCtx builds an evaluation context for this function's own contract.
func (tr *FnTrans) specCtx(heap, old *Heap, extra map[string]Val) *evalCtx {
	env := map[string]Val{}
	for k, v := range tr.paramEnv {
		env[k] = v
	}
	for k, v := range tr.binds {
		env[k] = v
	}
	for name, comp := range tr.ghostLocals {
		srt := tr.vc.compSort[comp]
		env[name] = Val{K: sortKind(srt), T: tr.vc.hget(heap, comp), Sort: srt}
	}
	for k, v := range extra {
		env[k] = v
	}
	return &evalCtx{vc: tr.vc, env: env, heap: heap, old: old, pkg: tr.pkg, entryAlloc: tr.entryAlloc}
}

// globalFacts assumes the declared invariants of package-level variables.
func (tr *FnTrans) globalFacts() {
	if tr.pkg == nil {
		return
	}
	for path, cf := range tr.w.cfiles {
		for _, a := range cf.Axioms {
			// declared axioms (about uninterpreted functions): assumptions,
			// listed in the evidence
			ec := &evalCtx{vc: tr.vc, env: map[string]Val{}, heap: tr.cur, pkg: tr.w.tpkgs[path]}
			ok := func() (ok bool) {
				defer func() {
					if r := recover(); r != nil {
						if _, isVC := r.(vcError); isVC {
							ok = false
							return
						}
						panic(r)
					}
				}()
				tr.vc.fact(ec.evalBool(a.E), "axiom "+a.Label)
				return true
			}()
			if ok {
				tr.vc.assume("declared axiom (unchecked): " + shortPkg(path) + " [" + a.Label + "] " + a.Text)
			}
		}
		for _, g := range cf.Globals {
			ec := &evalCtx{vc: tr.vc, env: map[string]Val{}, heap: tr.cur, pkg: tr.w.tpkgs[path]}
			tr.vc.fact(ec.evalBool(g.E), "global "+g.Name)
			tr.vc.assume("global invariant (writers checked syntactically): " + shortPkg(path) + "." + g.Name + ": " + g.Text)
		}
	}
}

func (tr *FnTrans) block(b *ssa.BasicBlock) {
	vc := tr.vc
	tr.curBlock = b
	li := tr.loops[b.Index]
	if b.Index != 0 {
		var conds []string
		var heaps []*Heap
		var preds []*ssa.BasicBlock
		for _, p := range b.Preds {
			if tr.isBack[[2]int{p.Index, b.Index}] {
				continue
			}
			if _, ok := tr.pos[p.Index]; !ok {
				continue // unreachable predecessor (recover block)
			}
			conds = append(conds, tr.edge[[2]int{p.Index, b.Index}])
			heaps = append(heaps, tr.outHeap[p.Index])
			preds = append(preds, p)
		}
		if len(preds) == 0 {
			panic(vcErrorf("block %d has no processed predecessor", b.Index))
		}
		r := vc.fresh(fmt.Sprintf("reach%d", b.Index), sortBool)
		vc.fact(sEq(r, sOr(conds...)), "")
		tr.reach[b.Index] = r
		tr.curReach = r
		tr.cur = tr.mergeHeaps(conds, heaps)
		// phis
		phiEntry := map[*ssa.Phi]Val{}
		for _, in := range b.Instrs {
			phi, ok := in.(*ssa.Phi)
			if !ok {
				break
			}
			var v Val
			first := true
			for i := len(b.Preds) - 1; i >= 0; i-- {
				p := b.Preds[i]
				if tr.isBack[[2]int{p.Index, b.Index}] {
					continue
				}
				if _, ok := tr.pos[p.Index]; !ok {
					continue
				}
				ev := tr.val(phi.Edges[i])
				if first {
					v = ev
					first = false
				} else {
					v = tr.iteVal(tr.edge[[2]int{p.Index, b.Index}], ev, v)
				}
			}
			phiEntry[phi] = v
		}
		if li == nil {
			for phi, v := range phiEntry {
				tr.define(phi, v)
			}
		} else {
			tr.loopHeader(li, phiEntry)
		}
	} else {
		tr.reach[0] = tr.curReach
		if li != nil {
			panic(vcErrorf("entry block is a loop header"))
		}
	}
	snap := tr.cur.clone()
	for k, in := range b.Instrs {
		if _, ok := in.(*ssa.Phi); ok {
			continue
		}
		tr.curInstr = k
		tr.instr(in)
	}
	tr.curInstr = len(b.Instrs)
	tr.outHeap[b.Index] = tr.cur
	if tr.written[b.Index] == nil {
		tr.written[b.Index] = map[string]bool{}
	}
	for c, v := range tr.cur.m {
		if snap.m[c] != v {
			tr.written[b.Index][c] = true
		}
	}
}

// phiNames maps source names of a loop header's phis to values.
func phiName(phi *ssa.Phi) string { return phi.Comment }

func (tr *FnTrans) loopHeader(li *loopInfo, phiEntry map[*ssa.Phi]Val) {
	vc := tr.vc
	b := li.header
	var invs []Clause
	var dec Expr
	if tr.fc != nil {
		invs = tr.fc.LoopInv[li.num]
		dec = tr.fc.LoopDec[li.num]
	}
	// 1. invariants on entry
	entryEnv := map[ssa.Value]Val{}
	for phi, v := range phiEntry {
		entryEnv[phi] = v
	}
	if !tr.scan {
		ec := tr.loopCtx(li, entryEnv, tr.cur)
		for _, c := range invs {
			tr.vc.oblig(fmt.Sprintf("%s#inv:loop%d.%s:entry", tr.name, li.num, c.Label), "inv", sImp(tr.curReach, ec.evalBool(c.E)), "loop invariant on entry: "+c.Text)
		}
	}
	// automatic frame invariant: components that the function's modifies
	// clause does not mention stay unchanged on objects that existed at entry
	li.frameComps = nil
	if !tr.scan && tr.fc != nil && !tr.fc.ModAll && tr.loopMods != nil {
		for _, c := range tr.loopMods[b.Index] {
			srt, ok := vc.compSort[c]
			if !ok || c == compAlloc || c == "*" || strings.HasPrefix(c, "V$") || strings.HasPrefix(c, "R$") || strings.HasPrefix(c, "L$") || strings.HasPrefix(c, "D$") || tr.wholeMod(c) {
				continue
			}
			if tr.fc.ModHeap && !strings.HasPrefix(c, "G$") {
				continue
			}
			if tr.fc.ModGhosts && strings.HasPrefix(c, "G$") {
				continue
			}
			if strings.HasPrefix(c, "G$") {
				// ghost state: unchanged unless the modifies clause names it
				// (partially named maps keep their other entries)
				if len(tr.modByComp[c]) > 0 && !strings.HasPrefix(srt, "(Array") {
					continue
				}
				li.frameComps = append(li.frameComps, c)
				continue
			}
			if !strings.HasPrefix(srt, "(Array Int ") {
				continue
			}
			li.frameComps = append(li.frameComps, c)
		}
		if len(li.frameComps) > 0 {
			tr.vc.oblig(fmt.Sprintf("%s#inv:loop%d.autoframe:entry", tr.name, li.num), "inv", sImp(tr.curReach, tr.frameTerm(li, tr.cur)), "objects existing at entry are unchanged when the loop is entered (components outside the modifies clause)")
		}
	}
	// 2. havoc
	pre := tr.cur
	tr.cur = pre.clone()
	if tr.loopMods != nil {
		all := false
		for _, c := range tr.loopMods[b.Index] {
			if c == "*" {
				all = true
			}
		}
		if all {
			// what every whole-heap havoc inside the loop preserves is also
			// preserved at the loop head (unless the loop writes it otherwise)
			explicit := map[string]bool{}
			for _, c := range tr.loopMods[b.Index] {
				explicit[c] = true
			}
			keepv := map[string]string{}
			if k := tr.loopKept[b.Index]; k != nil {
				for c := range vc.compSort {
					if explicit[c] {
						continue
					}
					if (k.ghosts && strings.HasPrefix(c, "G$") && !k.ghostMod[c]) || k.comps[c] {
						keepv[c] = vc.hget(tr.cur, c)
					}
				}
			}
			tr.havocAll()
			for c, v := range keepv {
				tr.cur.m[c] = v
			}
			// explicitly written ghost / excepted components are forgotten
			for _, c := range tr.loopMods[b.Index] {
				if strings.HasPrefix(c, "G$") {
					if _, ok := vc.compSort[c]; ok {
						vc.hfresh(tr.cur, c)
					}
				}
			}
			// function-private components survive havocAll; those the loop
			// body writes must still be forgotten at the loop head
			for _, c := range tr.loopMods[b.Index] {
				if strings.HasPrefix(c, "L$") || strings.HasPrefix(c, "R$") {
					if _, ok := vc.compSort[c]; ok {
						vc.hfresh(tr.cur, c)
					}
				}
			}
		} else {
			for _, c := range tr.loopMods[b.Index] {
				if c == compAlloc || strings.HasPrefix(c, "D$") {
					continue
				}
				if _, ok := vc.compSort[c]; !ok {
					continue
				}
				vc.hfresh(tr.cur, c)
			}
			old := vc.hget(pre, compAlloc)
			n := vc.fresh("$alloc", sortInt)
			vc.fact(sLe(old, n), "")
			tr.cur.m[compAlloc] = n
		}
		tr.ghostZeroBeyond(vc.hget(tr.cur, compAlloc))
	}
	for _, in := range b.Instrs {
		phi, ok := in.(*ssa.Phi)
		if !ok {
			break
		}
		v := tr.freshVal("phi$"+phi.Name()+"$"+phi.Comment, phi.Type())
		vc.fact(vc.typeFacts(tr.cur, v), "")
		tr.vals[phi] = v
	}
	// 3. assume invariants
	if !tr.scan {
		if len(li.frameComps) > 0 {
			tr.fact(tr.frameTerm(li, tr.cur))
		}
		ec := tr.loopCtx(li, nil, tr.cur)
		for _, c := range invs {
			tr.fact(ec.evalBool(c.E))
		}
		if dec != nil {
			li.decr0 = ec.evalInt(dec)
		}
	}
}

// frameTerm: the automatic loop frame invariant over li.frameComps in heap h.
func (tr *FnTrans) frameTerm(li *loopInfo, h *Heap) string {
	var ps []string
	for _, c := range li.frameComps {
		cur := tr.vc.hget(h, c)
		ent := tr.vc.hget(tr.entryHeap, c)
		if cur == ent {
			continue
		}
		if len(tr.modByComp[c]) > 0 {
			ps = append(ps, tr.frameFormula(c, cur, ent, tr.modByComp[c], true))
			continue
		}
		if strings.HasPrefix(c, "G$") {
			ps = append(ps, sEq(cur, ent))
			continue
		}
		ps = append(ps, fmt.Sprintf("(forall ((i Int)) (! (=> %s (= (select %s i) (select %s i))) :pattern ((select %s i))))", tr.vc.existedAt("i", tr.entryAlloc), cur, ent, cur))
	}
	return sAnd(ps...)
}

// wholeMod: the modifies clause names the whole component.
func (tr *FnTrans) wholeMod(comp string) bool {
	for _, t := range tr.modByComp[comp] {
		if t.idx == "" && t.pred == nil {
			return true
		}
	}
	return false
}

// frameFormula: component comp (version f) differs from version ent only at
// the declared targets ts, for objects that existed at function entry.
func (tr *FnTrans) frameFormula(comp, f, ent string, ts []modTarget, withPattern bool) string {
	vc := tr.vc
	srt := vc.compSort[comp]
	is, _ := splitArrSort(srt)
	existed := "true"
	if is == sortInt && !strings.HasPrefix(comp, "G$") && !strings.HasPrefix(comp, "V$") {
		existed = vc.existedAt("i", tr.entryAlloc)
	}
	var allowed []string
	var inner []string
	for _, t := range ts {
		if t.pred != nil {
			allowed = append(allowed, t.pred("i"))
		} else if t.twoLvl && t.lo != "" {
			pj := ""
			if withPattern {
				pj = fmt.Sprintf(" :pattern ((select (select %s i) j))", f)
			}
			ib := fmt.Sprintf("(=> (not %s) (= (select (select %s i) j) (select (select %s i) j)))", tr.innerAllowed(ts, t.idx), f, ent)
			if pj != "" {
				ib = "(! " + ib + pj + ")"
			}
			inner = append(inner, fmt.Sprintf("(=> (= i %s) (forall ((j Int)) %s))", t.idx, ib))
			allowed = append(allowed, sEq("i", t.idx))
		} else {
			allowed = append(allowed, sEq("i", t.idx))
		}
	}
	body := sImp(sAnd(existed, sNot(sOr(allowed...))), sEq(sSel(f, "i"), sSel(ent, "i")))
	all := sAnd(append([]string{body}, inner...)...)
	if withPattern {
		all = fmt.Sprintf("(! %s :pattern ((select %s i)))", all, f)
	}
	return fmt.Sprintf("(forall ((i %s)) %s)", is, all)
}

// loopCtx: evaluation context for invariants of loop li; override maps the
// header's phis to the values to use (entry or latch operands).
func (tr *FnTrans) loopCtx(li *loopInfo, override map[ssa.Value]Val, heap *Heap) *evalCtx {
	ec := tr.specCtx(heap, tr.entryHeap, nil)
	at := li.header
	// loop-carried variables shadow parameters of the same name (a parameter
	// that the loop reassigns); entry(x) still gives the parameter's value
	for _, in := range li.header.Instrs {
		phi, ok := in.(*ssa.Phi)
		if !ok {
			break
		}
		if pv, isParam := ec.env[phi.Comment]; isParam && phi.Comment != "" {
			ec.env["entry$"+phi.Comment] = pv
			delete(ec.env, phi.Comment)
		}
	}
	ec.lookup = func(name string) (Val, bool) {
		for _, in := range li.header.Instrs {
			phi, ok := in.(*ssa.Phi)
			if !ok {
				break
			}
			if phi.Comment == name {
				if override != nil {
					if v, ok := override[phi]; ok {
						return v, true
					}
				}
				return tr.vals[phi], true
			}
		}
		if name == "visited" {
			// ghost visited set of the map range this loop iterates
			for _, in := range li.header.Instrs {
				if nx, ok := in.(*ssa.Next); ok {
					if rs := tr.ranges[nx.Iter]; rs != nil {
						srt := tr.vc.compSort[rs.done]
						return Val{K: KArr, T: tr.vc.hget(heap, rs.done), Sort: srt}, true
					}
				}
			}
		}
		return tr.lookupLocal(name, at, heap)
	}
	return ec
}

// lookupLocal resolves a source-level local variable name at block `at`
// through the debug references of the function.
func (tr *FnTrans) lookupLocal(name string, at *ssa.BasicBlock, heap *Heap) (Val, bool) {
	if name == "rangekey" {
		// key of the current iteration of the innermost map range around `at`
		var best *loopInfo
		for _, li := range tr.loops {
			if !li.blocks[at.Index] {
				continue
			}
			if best == nil || len(li.blocks) < len(best.blocks) {
				best = li
			}
		}
		if best != nil {
			for _, in := range best.header.Instrs {
				if nx, ok := in.(*ssa.Next); ok {
					if v, ok := tr.vals[nx]; ok && len(v.Fields) == 3 {
						return v.Fields[1], true
					}
				}
			}
		}
		return Val{}, false
	}
	refs := tr.debug[name]
	var best *ssa.DebugRef
	bestPos := -1
	for _, d := range refs {
		db := d.Block()
		if _, ok := tr.pos[db.Index]; !ok {
			continue
		}
		if !(db.Dominates(at)) {
			continue
		}
		if db == at {
			// same block: only references before the current instruction
			idx := -1
			for k, in := range db.Instrs {
				if in == ssa.Instruction(d) {
					idx = k
				}
			}
			if at != tr.curBlock || idx < 0 || idx >= tr.curInstr {
				continue
			}
		}
		if _, ok := tr.vals[d.X]; !ok {
			if _, isC := d.X.(*ssa.Const); !isC {
				continue
			}
		}
		if tr.pos[db.Index] >= bestPos {
			best = d
			bestPos = tr.pos[db.Index]
		}
	}
	if best == nil {
		return Val{}, false
	}
	v := tr.val(best.X)
	if best.IsAddr {
		switch v.K {
		case KPtr:
			return scalarVal(v.Typ.Underlying().(*types.Pointer).Elem(), tr.vc.loadLoc(heap, v.Loc)), true
		case KRef:
			return v, true
		}
	}
	return v, true
}

// lookupAtExit resolves a local variable for an assertion at the function's
// exit: the latest debug reference whose block dominates every returning block.
func (tr *FnTrans) lookupAtExit(name string, heap *Heap) (Val, bool) {
	var rets []*ssa.BasicBlock
	for _, b := range tr.fn.Blocks {
		if len(b.Instrs) > 0 {
			if _, ok := b.Instrs[len(b.Instrs)-1].(*ssa.Return); ok && b != tr.fn.Recover {
				if _, reachable := tr.pos[b.Index]; reachable {
					rets = append(rets, b)
				}
			}
		}
	}
	var best *ssa.DebugRef
	bestPos := -1
	for _, d := range tr.debug[name] {
		db := d.Block()
		p, ok := tr.pos[db.Index]
		if !ok {
			continue
		}
		dom := true
		for _, r := range rets {
			if db == r || !db.Dominates(r) {
				dom = false
				break
			}
		}
		if !dom {
			continue
		}
		if _, ok := tr.vals[d.X]; !ok {
			if _, isC := d.X.(*ssa.Const); !isC {
				continue
			}
		}
		if p >= bestPos {
			best, bestPos = d, p
		}
	}
	if best == nil {
		return Val{}, false
	}
	v := tr.val(best.X)
	if best.IsAddr {
		if v.K == KPtr {
			return scalarVal(v.Typ.Underlying().(*types.Pointer).Elem(), tr.vc.loadLoc(heap, v.Loc)), true
		}
	}
	return v, true
}

// latch checks the invariants and the variant on a back edge from -> header.
func (tr *FnTrans) latch(from *ssa.BasicBlock, li *loopInfo, cond string) {
	if tr.scan || tr.fc == nil {
		return
	}
	// index of the predecessor
	override := map[ssa.Value]Val{}
	for i, p := range li.header.Preds {
		if p != from {
			continue
		}
		for _, in := range li.header.Instrs {
			phi, ok := in.(*ssa.Phi)
			if !ok {
				break
			}
			override[phi] = tr.val(phi.Edges[i])
		}
	}
	if tr.fc.ForwardFrames {
		var vs []Val
		for _, v := range override {
			vs = append(vs, v)
		}
		tr.seedSlices(vs, cond)
	}
	ec := tr.loopCtx(li, override, tr.cur)
	k := 0
	for j, l := range li.latches {
		if l == from {
			k = j + 1
		}
	}
	if len(li.frameComps) > 0 {
		tr.vc.oblig(fmt.Sprintf("%s#inv:loop%d.autoframe:latch%d", tr.name, li.num, k), "inv", sImp(cond, tr.frameTerm(li, tr.cur)), "objects existing at entry are unchanged by the loop body (components outside the modifies clause)")
	}
	for _, c := range tr.fc.LoopInv[li.num] {
		tr.vc.oblig(fmt.Sprintf("%s#inv:loop%d.%s:latch%d", tr.name, li.num, c.Label, k), "inv", sImp(cond, ec.evalBool(c.E)), "loop invariant preserved: "+c.Text)
	}
	if dec := tr.fc.LoopDec[li.num]; dec != nil {
		m := ec.evalInt(dec)
		tr.vc.oblig(fmt.Sprintf("%s#decreases:loop%d:latch%d", tr.name, li.num, k), "decreases", sImp(cond, sAnd(sLe("0", li.decr0), sLt(m, li.decr0))), "loop variant decreases")
	}
}

func (tr *FnTrans) setEdge(from, to *ssa.BasicBlock, cond string) {
	key := [2]int{from.Index, to.Index}
	if tr.isBack[key] {
		tr.latch(from, tr.loops[to.Index], cond)
		return
	}
	if old, ok := tr.edge[key]; ok {
		cond = sOr(old, cond)
	}
	tr.edge[key] = cond
}

// ---------------------------------------------------------------- exit

// atCall emits the `at call <n> <method> assert ...` obligations anchored at
// the n-th call (in source order) of a function or method with the given
// simple name. Locals are resolved through the debug references.
func (tr *FnTrans) atCall(simple string) {
	if tr.fc == nil {
		return
	}
	if tr.scan {
		// scan pass: only record which ghost locals the call site updates, so
		// that loops around it forget them at their heads
		ord := tr.callOrdinal(simple)
		for _, ai := range tr.fc.At {
			f := strings.Fields(ai.Anchor)
			if len(f) != 3 || f[0] != "call" || f[2] != simple || f[1] != fmt.Sprint(ord) || ai.What != "ghost" {
				continue
			}
			tgt := ai.Target
			if ix, ok := tgt.(*EIndex); ok {
				tgt = ix.X
			}
			if id, ok := tgt.(*EIdent); ok {
				if comp, ok := tr.ghostLocals[id.Name]; ok {
					tr.cur.m[comp] = tr.vc.fresh(comp+"@scan", tr.vc.compSort[comp])
				}
			}
		}
		return
	}
	ord := tr.callOrdinal(simple)
	for k, ai := range tr.fc.At {
		f := strings.Fields(ai.Anchor)
		if len(f) != 3 || f[0] != "call" || f[2] != simple || f[1] != fmt.Sprint(ord) {
			continue
		}
		tr.atUsed[k] = true
		if ai.What == "bind" {
			// name the call: <name> is true iff this call is executed; ghost
			// results of the callee become <name>_<result>
			tr.binds[ai.Text] = Val{K: KBool, T: tr.curReach, Typ: types.Typ[types.Bool]}
			if tr.curReach != "true" && tr.curReach != "false" {
				dup := false
				for _, sv := range tr.vc.splitVars {
					if sv == tr.curReach {
						dup = true
					}
				}
				if !dup {
					tr.vc.splitVars = append(tr.vc.splitVars, tr.curReach)
				}
			}
			tr.pendingBind = ai.Text
			tr.lastBind = ai.Text
			continue
		}
		if ai.What == "ghost" || ai.What == "hint" {
			tr.pendingGhost = append(tr.pendingGhost, ai)
			continue
		}
		if ai.What != "assert" {
			panic(vcErrorf("at %s: only assert, bind and ghost are supported", ai.Anchor))
		}
		ec := tr.specCtx(tr.cur, tr.entryHeap, nil)
		at := tr.curBlock
		heap := tr.cur
		ec.lookup = func(name string) (Val, bool) { return tr.lookupLocal(name, at, heap) }
		term, why := func() (t string, why string) {
			defer func() {
				if r := recover(); r != nil {
					if ve, isVC := r.(vcError); isVC {
						t, why = "false", " [cannot be evaluated here: "+ve.msg+"]"
						return
					}
					panic(r)
				}
			}()
			return sImp(tr.curReach, ec.evalBool(ai.E)), ""
		}()
		tr.vc.oblig(fmt.Sprintf("%s#assert:%s", tr.name, ai.Label), "assert", term, fmt.Sprintf("assertion before call %d of %s: %s%s", ord, simple, ai.Text, why))
	}
}

func (tr *FnTrans) exit() {
	vc := tr.vc
	if tr.fc != nil && !tr.scan {
		for k, ai := range tr.fc.At {
			if !tr.atUsed[k] {
				if ai.Anchor == "exit" {
					continue
				}
				if ai.What == "bind" {
					// a named call that does not exist is never executed
					// (its ghost results, if referenced, remain unknown
					// identifiers and stop the generation)
					if _, ok := tr.binds[ai.Text]; !ok {
						tr.binds[ai.Text] = Val{K: KBool, T: "false", Typ: types.Typ[types.Bool]}
					}
					vc.assume("contract note: at " + ai.Anchor + " bind " + ai.Text + " names no call in " + tr.name + "; treated as never executed")
					continue
				}
				if ai.What == "assert" {
					// the call the assertion is attached to does not occur in
					// the body any more: the assertion cannot hold "before that
					// call" - reported under the assertion's own name
					vc.oblig(fmt.Sprintf("%s#assert:%s", tr.name, ai.Label), "assert", "false",
						"the call this assertion is attached to ("+ai.Anchor+") does not occur in the function: "+ai.Text)
					continue
				}
				panic(vcErrorf("at-clause anchor %q does not match any program point", ai.Anchor))
			}
		}
	}
	if len(tr.returns) == 0 {
		return // function never returns normally
	}
	var conds []string
	var heaps []*Heap
	for _, r := range tr.returns {
		conds = append(conds, r.cond)
		heaps = append(heaps, r.heap)
	}
	anyRet := vc.fresh("returns", sortBool)
	vc.fact(sEq(anyRet, sOr(conds...)), "")
	fin := tr.mergeHeaps(conds, heaps)
	nres := len(tr.returns[0].results)
	results := make([]Val, nres)
	for i := 0; i < nres; i++ {
		v := tr.returns[len(tr.returns)-1].results[i]
		for j := len(tr.returns) - 2; j >= 0; j-- {
			v = tr.iteVal(tr.returns[j].cond, tr.returns[j].results[i], v)
		}
		// name it
		if v.K != KStruct && v.K != KTuple && v.K != KPtr && !isSimpleTerm(v.T) {
			n := vc.fresh(fmt.Sprintf("result%d", i), kindSort(v.K))
			vc.fact(sEq(n, v.T), "")
			v.T = n
		}
		results[i] = v
	}
	tr.curReach = anyRet
	if tr.fc == nil || tr.scan {
		return
	}
	env := map[string]Val{}
	if len(tr.fc.Results) != 0 {
		if len(tr.fc.Results) != nres {
			panic(vcErrorf("contract lists %d results, function has %d", len(tr.fc.Results), nres))
		}
		for i, r := range tr.fc.Results {
			env[r.Name] = results[i]
		}
	}
	// ghost results: defined pointwise by the ghostdef clauses
	for _, gd := range tr.fc.GhostDefs {
		ix, ok := gd.Target.(*EIndex)
		var gname string
		var qname string
		if ok {
			if id, ok2 := ix.X.(*EIdent); ok2 {
				gname = id.Name
			}
			if id, ok2 := ix.I.(*EIdent); ok2 {
				qname = id.Name
			}
		} else if id, ok2 := gd.Target.(*EIdent); ok2 {
			gname = id.Name
		}
		var decl *Param
		for i := range tr.fc.GhostResults {
			if tr.fc.GhostResults[i].Name == gname {
				decl = &tr.fc.GhostResults[i]
			}
		}
		if decl == nil {
			panic(vcErrorf("ghostdef: %s is not a declared ghost result", gname))
		}
		srt := ghostSort(decl.Type)
		g := vc.fresh("gres$"+gname, srt)
		dec := tr.specCtx(fin, tr.entryHeap, env)
		if qname == "" {
			v := dec.eval(gd.E)
			vc.fact(sEq(g, v.T), "")
		} else {
			ks, es := splitArrSort(srt)
			qv := Val{K: sortKind(ks), T: qsym("gq$" + qname), Sort: ks}
			if qv.K == KStr {
				qv.Typ = types.Typ[types.String]
			}
			dec.env[qname] = qv
			v := dec.eval(gd.E)
			_ = es
			vc.fact(fmt.Sprintf("(forall ((%s %s)) (! (= (select %s %s) %s) :pattern ((select %s %s))))", qv.T, ks, g, qv.T, v.T, g, qv.T), "")
		}
		env[gname] = Val{K: sortKind(srt), T: g, Sort: srt}
	}
	ec := tr.specCtx(fin, tr.entryHeap, env)
	// ghost updates performed by the function at its exit (the only way a
	// function under contract changes ghost state itself)
	for _, gs := range tr.fc.GhostSets {
		var name string
		var idxs []Expr
		tgt := gs.Target
		for {
			if ix, ok := tgt.(*EIndex); ok {
				idxs = append([]Expr{ix.I}, idxs...)
				tgt = ix.X
				continue
			}
			break
		}
		id, ok := tgt.(*EIdent)
		if !ok || len(idxs) > 2 {
			panic(vcErrorf("ghostset: unsupported target"))
		}
		name = id.Name
		g, ok := tr.w.ghosts[name]
		if !ok {
			panic(vcErrorf("ghostset: %s is not a ghost variable", name))
		}
		comp := ghostComp(name)
		vc.compDecl(comp, ghostSort(g.Type))
		if gs.Pointwise {
			qid, ok := idxs[0].(*EIdent)
			if len(idxs) != 1 || !ok {
				panic(vcErrorf("ghostset pointwise: expected x[v] := e"))
			}
			srt := vc.compSort[comp]
			ks, _ := splitArrSort(srt)
			qv := Val{K: sortKind(ks), T: qsym("gq$" + qid.Name), Sort: ks}
			switch qv.K {
			case KStr:
				qv.Typ = types.Typ[types.String]
			case KIface:
				qv.Typ = types.NewInterfaceType(nil, nil)
			}
			pec := tr.specCtx(fin, tr.entryHeap, env)
			pec.env[qid.Name] = qv
			v := pec.eval(gs.E)
			n := vc.fresh(comp+"@g", srt)
			vc.fact(fmt.Sprintf("(forall ((%s %s)) (! (= (select %s %s) %s) :pattern ((select %s %s))))", qv.T, ks, n, qv.T, v.T, n, qv.T), "")
			fin.m[comp] = n
			continue
		}
		v := ec.eval(gs.E)
		cur := vc.hget(fin, comp)
		nv := v.T
		switch len(idxs) {
		case 1:
			nv = sSto(cur, ec.eval(idxs[0]).T, v.T)
		case 2:
			i0, i1 := ec.eval(idxs[0]).T, ec.eval(idxs[1]).T
			nv = sSto(cur, i0, sSto(sSel(cur, i0), i1, v.T))
		}
		n := vc.fresh(comp+"@g", vc.compSort[comp])
		vc.fact(sEq(n, nv), "")
		fin.m[comp] = n
	}
	// proof hints: `at exit assert [l] e` is proved and then available to the
	// postconditions (typically a statement that introduces witness terms)
	for k, ai := range tr.fc.At {
		if ai.Anchor != "exit" || ai.What != "assert" {
			continue
		}
		tr.atUsed[k] = true
		hec := tr.specCtx(fin, tr.entryHeap, env)
		// locals: a variable whose latest reference dominates every return
		// (e.g. the loop variable of the function's main loop)
		hec.lookup = func(name string) (Val, bool) { return tr.lookupAtExit(name, fin) }
		t := sImp(anyRet, hec.evalBool(ai.E))
		vc.oblig(fmt.Sprintf("%s#assert:%s", tr.name, ai.Label), "assert", t, "assertion at exit: "+ai.Text)
		vc.fact(t, "")
	}
	ec = tr.specCtx(fin, tr.entryHeap, env)
	if tr.refines != nil {
		tr.refinePost(fin, anyRet, results)
	}
	for _, c := range tr.fc.Ensures {
		vc.oblig(tr.name+"#ensures:"+c.Label, "ensures", sImp(anyRet, ec.evalBool(c.E)), "postcondition: "+c.Text)
	}
	tr.frameCheck(fin, anyRet)
}

// ---------------------------------------------------------------- modifies

type modTarget struct {
	comp    string
	idx     string // one-level: exact index ("" = whole component)
	lo, hi  string // two-level: inner range (idx = outer index); "" = all inner
	twoLvl  bool
	pred    func(i string) string // general predicate (overrides idx) for one-level
	desc    string
}

func (tr *FnTrans) structTargets(st types.Type, ref string, out *[]modTarget) {
	s := structOf(st)
	for i := 0; i < s.NumFields(); i++ {
		f := tr.vc.fieldOf(st, i, ref)
		if f.K == KRef {
			tr.structTargets(s.Field(i).Type(), f.T, out)
		} else {
			*out = append(*out, modTarget{comp: f.Loc.Comp, idx: f.Loc.Idx})
		}
	}
}

// modTargets resolves a modifies-clause expression in context ec.
func (tr *FnTrans) modTargets(ec *evalCtx, e Expr) []modTarget {
	vc := tr.vc
	var out []modTarget
	sliceTargets := func(v Val, lo, hi string) {
		et := sliceElem(v.Typ)
		arr := "(s-arr " + v.T + ")"
		l := sAdd("(s-off "+v.T+")", lo)
		h := sAdd("(s-off "+v.T+")", hi)
		if kindOf(et) == KStruct {
			s := et.Underlying().(*types.Struct)
			for i := 0; i < s.NumFields(); i++ {
				if kindOf(s.Field(i).Type()) == KStruct {
					panic(vcErrorf("modifies: nested struct elements unsupported"))
				}
				comp, _ := vc.fieldComp(et, i)
				vc.erefDecls()
				out = append(out, modTarget{comp: comp, pred: func(x string) string {
					return isElemOf(x, arr, l, h)
				}})
			}
			return
		}
		out = append(out, modTarget{comp: vc.elemComp(et), idx: arr, lo: l, hi: h, twoLvl: true})
	}
	switch x := e.(type) {
	case *EIdent:
		if _, ok := vc.w.ghosts[x.Name]; ok {
			v := ec.lookupIdent(x.Name)
			_ = v
			return []modTarget{{comp: ghostComp(x.Name)}}
		}
		v := ec.lookupIdent(x.Name)
		switch v.K {
		case KSlice:
			sliceTargets(v, "0", "(s-len "+v.T+")")
			return out
		case KRef:
			if _, ok := v.Typ.Underlying().(*types.Map); ok {
				mh, mv, ml, _ := vc.mapComps(v.Typ)
				return []modTarget{{comp: mh, idx: v.T}, {comp: mv, idx: v.T}, {comp: ml, idx: v.T}}
			}
			if structOf(v.Typ) != nil {
				tr.structTargets(v.Typ, v.T, &out)
				return out
			}
		}
		// package-level variable
		if ec.pkg != nil {
			if o, ok := ec.pkg.Scope().Lookup(x.Name).(*types.Var); ok {
				return []modTarget{{comp: vc.globalComp(shortPkg(ec.pkg.Path()), x.Name, o.Type()), idx: "0"}}
			}
		}
		panic(vcErrorf("modifies: cannot resolve %s", x.Name))
	case *ESel:
		base := ec.eval(x.X)
		if base.K != KRef {
			panic(vcErrorf("modifies: %s is not a field of an object", exprString(e)))
		}
		s := structOf(base.Typ)
		i := fieldIndex(s, x.Name)
		if i < 0 {
			panic(vcErrorf("modifies: no field %s", x.Name))
		}
		f := vc.fieldOf(base.Typ, i, base.T)
		if f.K == KRef {
			tr.structTargets(s.Field(i).Type(), f.T, &out)
			return out
		}
		return []modTarget{{comp: f.Loc.Comp, idx: f.Loc.Idx}}
	case *EUn:
		if x.Op == "*" {
			v := ec.eval(x.X)
			switch v.K {
			case KPtr:
				if v.Loc.Idx2 != "" {
					return []modTarget{{comp: v.Loc.Comp, idx: v.Loc.Idx, lo: v.Loc.Idx2, hi: sAdd(v.Loc.Idx2, "1"), twoLvl: true}}
				}
				return []modTarget{{comp: v.Loc.Comp, idx: v.Loc.Idx}}
			case KRef:
				tr.structTargets(v.Typ, v.T, &out)
				return out
			}
		}
	case *ESlice:
		v := ec.eval(x.X)
		lo, hi := "0", "(s-len "+v.T+")"
		if x.Lo != nil {
			lo = ec.evalInt(x.Lo)
		}
		if x.Hi != nil {
			hi = ec.evalInt(x.Hi)
		}
		sliceTargets(v, lo, hi)
		return out
	case *EIndex:
		if id, ok := x.X.(*EIdent); ok {
			if _, isG := vc.w.ghosts[id.Name]; isG {
				ec.lookupIdent(id.Name)
				return []modTarget{{comp: ghostComp(id.Name), idx: ec.eval(x.I).T}}
			}
		}
		v := ec.eval(x.X)
		if v.K == KSlice {
			i := ec.evalInt(x.I)
			sliceTargets(v, i, sAdd(i, "1"))
			return out
		}
		if v.K == KRef {
			if _, ok := v.Typ.Underlying().(*types.Map); ok {
				// m[k]: treated as the whole map object
				mh, mv, ml, _ := vc.mapComps(v.Typ)
				return []modTarget{{comp: mh, idx: v.T}, {comp: mv, idx: v.T}, {comp: ml, idx: v.T}}
			}
		}
	case *ECall:
		if x.Fn == "alloc" {
			return nil
		}
		if x.Fn == "object" && len(x.Args) == 1 { // object(x): every field of the object x points to (embedded structs included)
			v := ec.eval(x.Args[0])
			base := v.T
			if v.K == KIface {
				base = "(i-val " + v.T + ")"
			} else if v.K != KRef {
				panic(vcErrorf("modifies object(): expected a pointer or interface value"))
			}
			var names []string
			for c, srt := range vc.compSort {
				if strings.HasPrefix(c, "F$") && strings.HasPrefix(srt, "(Array Int ") {
					names = append(names, c)
				}
			}
			sort.Strings(names)
			var ts []modTarget
			for _, c := range names {
				ts = append(ts, modTarget{comp: c, pred: func(i string) string {
					return sAnd(sLe(base, i), sLt(i, sAdd(base, sNum(objStride))), sNot(sEq(base, "0")))
				}})
			}
			return ts
		}
		if x.Fn == "anymap" && len(x.Args) == 1 { // anymap(map[K]V): every map of that type
			mt := ec.resolveType(strings.ReplaceAll(exprString(x.Args[0]), " ", ""))
			mh, mv, ml, _ := vc.mapComps(mt)
			return []modTarget{{comp: mh}, {comp: mv}, {comp: ml}}
		}
		if x.Fn == "elemsof" && len(x.Args) == 1 { // elemsof(T): the elements of every []T
			return []modTarget{{comp: vc.elemComp(ec.resolveType(strings.ReplaceAll(exprString(x.Args[0]), " ", "")))}}
		}
		if x.Fn == "any" && len(x.Args) == 1 { // any(pkg.Type.field): that field of every object
			path := strings.ReplaceAll(exprString(x.Args[0]), " ", "")
			if strings.HasPrefix(path, "[]") { // any([]T): the elements of every []T
				return []modTarget{{comp: vc.elemComp(ec.resolveType(path[2:]))}}
			}
			k := strings.LastIndex(path, ".")
			if k < 0 {
				panic(vcErrorf("modifies any(): expected Type.field"))
			}
			t := ec.resolveType(path[:k])
			st := structOf(t)
			if st == nil {
				panic(vcErrorf("modifies any(): %s is not a struct", path[:k]))
			}
			i := fieldIndex(st, path[k+1:])
			if i < 0 {
				panic(vcErrorf("modifies any(): no field %s", path[k+1:]))
			}
			comp, _ := vc.fieldComp(t, i)
			return []modTarget{{comp: comp}}
		}
		if x.Fn == "elems" && len(x.Args) == 1 { // contents of a map / all elements of a slice
			v := ec.eval(x.Args[0])
			if v.K == KSlice {
				sliceTargets(v, "0", "(s-len "+v.T+")")
				return out
			}
			if v.K == KRef {
				if _, ok := v.Typ.Underlying().(*types.Map); ok {
					mh, mv, ml, _ := vc.mapComps(v.Typ)
					return []modTarget{{comp: mh, idx: v.T}, {comp: mv, idx: v.T}, {comp: ml, idx: v.T}}
				}
			}
		}
	}
	panic(vcErrorf("unsupported modifies target %s", exprString(e)))
}

// applyMods havocs the targets in tr.cur (call-site view of a modifies clause).
func (tr *FnTrans) applyMods(targets []modTarget) {
	vc := tr.vc
	byComp := map[string][]modTarget{}
	var comps []string
	for _, t := range targets {
		if _, ok := byComp[t.comp]; !ok {
			comps = append(comps, t.comp)
		}
		byComp[t.comp] = append(byComp[t.comp], t)
	}
	for _, comp := range comps {
		ts := byComp[comp]
		sort := vc.compSort[comp]
		old := vc.hget(tr.cur, comp)
		whole := false
		general := false
		for _, t := range ts {
			if t.pred != nil {
				general = true
			} else if t.idx == "" {
				whole = true
			}
		}
		if whole || !strings.HasPrefix(sort, "(Array") {
			vc.hfresh(tr.cur, comp)
			continue
		}
		is, es := splitArrSort(sort)
		if general {
			n := vc.fresh(comp+"@c", sort)
			vc.wellFormedComp(comp, n)
			var allowed []string
			for _, t := range ts {
				if t.pred != nil {
					allowed = append(allowed, t.pred("i"))
				} else {
					allowed = append(allowed, sEq("i", t.idx))
				}
			}
			tr.fact(fmt.Sprintf("(forall ((i %s)) (! (=> (not %s) (= (select %s i) (select %s i))) :pattern ((select %s i))))", is, sOr(allowed...), n, old, n))
			tr.cur.m[comp] = n
			continue
		}
		term := old
		for _, t := range ts {
			if !t.twoLvl || t.lo == "" {
				fv := vc.fresh(comp+"@v", es)
				if r, ok := vc.w.compRange[comp]; ok && es == sortInt {
					vc.fact(sAnd(sLe(sBig(r[0]), fv), sLe(fv, sBig(r[1]))), "")
				}
				if r, ok := vc.w.compRange[comp]; ok && es == "(Array Int Int)" {
					vc.decl("wf:"+fv, fmt.Sprintf("(assert (forall ((j Int)) (! (and (<= %s (select %s j)) (<= (select %s j) %s)) :pattern ((select %s j)))))", sBig(r[0]), fv, fv, sBig(r[1]), fv))
				}
				term = sSto(term, t.idx, fv)
			} else {
				_, inner := splitArrSort(es)
				_ = inner
				fv := vc.fresh(comp+"@a", es)
				if r, ok := vc.w.compRange[comp]; ok {
					vc.decl("wf:"+fv, fmt.Sprintf("(assert (forall ((j Int)) (! (and (<= %s (select %s j)) (<= (select %s j) %s)) :pattern ((select %s j)))))", sBig(r[0]), fv, fv, sBig(r[1]), fv))
				}
				tr.fact(fmt.Sprintf("(forall ((j Int)) (! (=> (not (and (<= %s j) (< j %s))) (= (select %s j) (select (select %s %s) j))) :pattern ((select %s j))))", t.lo, t.hi, fv, term, t.idx, fv))
				term = sSto(term, t.idx, fv)
			}
		}
		n := vc.fresh(comp+"@c", sort)
		vc.fact(sEq(n, term), "")
		tr.cur.m[comp] = n
	}
}

// frameCheck: every component whose final version differs from the entry
// version may differ only at the declared targets (for objects that existed
// at entry).
func (tr *FnTrans) frameCheck(fin *Heap, reach string) {
	vc := tr.vc
	if tr.fc.ModAll {
		return
	}
	ec := tr.specCtx(tr.entryHeap, tr.entryHeap, nil)
	var targets []modTarget
	for _, m := range tr.fc.Modifies {
		targets = append(targets, tr.modTargets(ec, m)...)
	}
	byComp := map[string][]modTarget{}
	for _, t := range targets {
		byComp[t.comp] = append(byComp[t.comp], t)
	}
	exceptedComps := map[string]bool{}
	for _, m := range tr.fc.ModExcept {
		for _, t := range tr.modTargets(ec, m) {
			exceptedComps[t.comp] = true
		}
	}
	var comps []string
	for c := range fin.m {
		comps = append(comps, c)
	}
	sort.Strings(comps)
	for _, comp := range comps {
		if comp == compAlloc || strings.HasPrefix(comp, "R$") || strings.HasPrefix(comp, "L$") || strings.HasPrefix(comp, "D$") {
			continue
		}
		if tr.fc.ModHeap && !strings.HasPrefix(comp, "G$") {
			// heap-except(...): the excepted components are framed like any
			// other (a partial contract's modifies clause is assumed, see
			// the PARTIAL note)
			if !exceptedComps[comp] || tr.fc.Partial {
				continue
			}
		}
		if tr.fc.ModGhosts && strings.HasPrefix(comp, "G$") {
			continue
		}
		if len(tr.fc.Calls) > 0 && !strings.HasPrefix(comp, "G$") {
			// heap effects of a function with callbacks are those of the
			// callbacks (accounted for at its call sites by the callback
			// rule); its own body is checked to be write-free (pureBody)
			continue
		}
		ent := vc.hget(tr.entryHeap, comp)
		f := fin.m[comp]
		if f == ent {
			continue
		}
		ts := byComp[comp]
		whole := false
		for _, t := range ts {
			if t.idx == "" && t.pred == nil {
				whole = true
			}
		}
		if whole {
			continue
		}
		srt := vc.compSort[comp]
		if !strings.HasPrefix(srt, "(Array") {
			vc.oblig(tr.name+"#frame:"+comp, "frame", sImp(reach, sEq(f, ent)), "frame: "+comp+" unchanged")
			continue
		}
		term := tr.frameFormula(comp, f, ent, ts, false)
		vc.oblig(tr.name+"#frame:"+comp, "frame", sImp(reach, term), "frame: "+comp+" changes only at the declared locations")
	}
}

// isElemOf: address x is the base address of element i, lo <= i < hi, of the
// struct-element array arr.
func isElemOf(x, arr, lo, hi string) string {
	g := sApp("gid", x)
	return sAnd(sLt(x, "0"), sEq(x, sApp("eref", sApp("erefarr", g), sApp("erefidx", g))), sEq(sApp("erefarr", g), arr), sLe(lo, sApp("erefidx", g)), sLt(sApp("erefidx", g), hi))
}

func (tr *FnTrans) innerAllowed(ts []modTarget, idx string) string {
	var rs []string
	for _, t := range ts {
		if t.twoLvl && t.lo != "" {
			rs = append(rs, sAnd(sEq(t.idx, idx), sLe(t.lo, "j"), sLt("j", t.hi)))
		}
	}
	return sOr(rs...)
}

// masksFromRequires: a conjunct `p <= C` of a precondition (p an unsigned
// parameter, C a literal) bounds the bits that may be set in p; used only to
// simplify the arithmetic expansion of bit operations (sound: the clause is
// assumed anyway).
func (tr *FnTrans) masksFromRequires(e Expr, pnames []string) {
	b, ok := e.(*EBin)
	if !ok {
		return
	}
	if b.Op == "&&" {
		tr.masksFromRequires(b.L, pnames)
		tr.masksFromRequires(b.R, pnames)
		return
	}
	if b.Op != "<=" {
		return
	}
	id, ok1 := b.L.(*EIdent)
	c, ok2 := b.R.(*EInt)
	if !ok1 || !ok2 || !c.V.IsUint64() {
		return
	}
	for i, p := range tr.fn.Params {
		name := p.Name()
		if pnames != nil && i < len(pnames) && pnames[i] != "" {
			name = pnames[i]
		}
		if name != id.Name {
			continue
		}
		if _, _, _, signed, ok := intRange(p.Type()); !ok || signed {
			continue
		}
		m := uint64(1)
		for m <= c.V.Uint64() && m != 0 {
			m <<= 1
		}
		tr.setMask(p, m-1)
	}
}

// seedSlices adds ground terms "(select E_cur (s-arr v))" for slice values, so
// that E-matching can connect reads of older heap versions with patterns over
// the current one (only with `hint forward-frames`).
func (tr *FnTrans) seedSlices(vs []Val, cond string) {
	vc := tr.vc
	for _, p := range tr.fn.Params {
		vs = append(vs, tr.vals[p])
	}
	for _, v := range vs {
		if v.K != KSlice || v.Typ == nil {
			continue
		}
		et := sliceElem(v.Typ)
		if kindOf(et) == KStruct {
			continue
		}
		comp := vc.elemComp(et)
		_, es := splitArrSort(vc.compSort[comp])
		seed := qsym("seed$" + comp)
		vc.declFun(seed, []string{es}, sortBool)
		vc.fact(sImp(cond, sApp(seed, sSel(vc.hget(tr.cur, comp), "(s-arr "+v.T+")"))), "")
	}
}

// pureBody: a function that declares callbacks (`calls p`) must not write the
// heap itself: no stores except to its own stack variables, no map updates,
// no append/copy/delete, and calls only to itself, to function values
// (the callbacks) and to functions whose contract says `modifies nothing`.
func (tr *FnTrans) pureBody() {
	for _, b := range tr.fn.Blocks {
		for _, in := range b.Instrs {
			switch x := in.(type) {
			case *ssa.Store:
				if a, ok := x.Addr.(*ssa.Alloc); ok && !a.Heap {
					continue
				}
				if fa, ok := x.Addr.(*ssa.FieldAddr); ok {
					if a, ok := fa.X.(*ssa.Alloc); ok && !a.Heap {
						continue
					}
				}
				panic(vcErrorf("function with callbacks writes memory itself (%s)", tr.posStr(x.Pos())))
			case *ssa.MapUpdate:
				panic(vcErrorf("function with callbacks updates a map itself (%s)", tr.posStr(x.Pos())))
			case *ssa.Call:
				if bi, ok := x.Call.Value.(*ssa.Builtin); ok {
					switch bi.Name() {
					case "append", "copy", "delete", "close":
						panic(vcErrorf("function with callbacks uses %s (%s)", bi.Name(), tr.posStr(x.Pos())))
					}
					continue
				}
				callee := x.Call.StaticCallee()
				if callee == nil {
					continue // function value or interface method: callbacks / contracts
				}
				if callee == tr.fn {
					continue
				}
				cfc := tr.w.contractFor(callee)
				if cfc == nil && tr.inlinable(callee) && pureInline(tr, callee, 0) {
					continue
				}
				if cfc == nil || cfc.ModAll || cfc.ModHeap || len(cfc.Modifies) > 0 {
					panic(vcErrorf("function with callbacks calls %s, which may write memory (%s)", callee.String(), tr.posStr(x.Pos())))
				}
			}
		}
	}
}

// callSimpleName: the name by which `at call <n> <name>` refers to a call.
func callSimpleName(c *ssa.CallCommon) string {
	if c.IsInvoke() {
		return c.Method.Name()
	}
	if b, ok := c.Value.(*ssa.Builtin); ok {
		return b.Name() // delete, append, copy, ...
	}
	if callee := c.StaticCallee(); callee != nil {
		return callee.Name()
	}
	if prm, ok := c.Value.(*ssa.Parameter); ok {
		return prm.Name()
	}
	return ""
}

// callOrdinal numbers the current call among the calls with the same simple
// name in source order (position of the call's opening parenthesis).
func (tr *FnTrans) callOrdinal(simple string) int {
	if tr.callOrdSrc == nil {
		tr.callOrdSrc = map[*ssa.CallCommon]int{}
		by := map[string][]*ssa.CallCommon{}
		for _, b := range tr.fn.Blocks {
			for _, in := range b.Instrs {
				if ci, ok := in.(ssa.CallInstruction); ok {
					c := ci.Common()
					if n := callSimpleName(c); n != "" {
						by[n] = append(by[n], c)
					}
				}
			}
		}
		tr.callSites = map[string]bool{}
		for n, cs := range by {
			sort.SliceStable(cs, func(i, j int) bool { return cs[i].Pos() < cs[j].Pos() })
			for i, c := range cs {
				tr.callOrdSrc[c] = i + 1
				tr.callSites[fmt.Sprintf("%d %s", i+1, n)] = true
			}
		}
	}
	if tr.curCall != nil {
		if o, ok := tr.callOrdSrc[tr.curCall]; ok {
			return o
		}
	}
	tr.atOrd[simple]++
	return 1000 + tr.atOrd[simple]
}

// ---------------------------------------------------------------- inlining
//
// An in-repo function without a contract whose body is straight-line code
// (no loops, defers, goroutines, closures, recursion) is translated in place
// at its call sites instead of being treated as an unknown call: extracting
// such a helper from a function under contract does not change what is
// proved about that function.

func (tr *FnTrans) inlinable(callee *ssa.Function) bool {
	if callee == nil || len(callee.Blocks) == 0 || tr.inlineDepth >= 3 || !tr.w.inRepo(callee) || callee == tr.fn || len(callee.FreeVars) > 0 || callee.Recover != nil {
		return false
	}
	if tr.w.contractFor(callee) != nil {
		return false
	}
	// loop-free
	state := map[int]int{}
	var cyc bool
	var dfs func(b *ssa.BasicBlock)
	dfs = func(b *ssa.BasicBlock) {
		state[b.Index] = 1
		for _, s := range b.Succs {
			if state[s.Index] == 1 {
				cyc = true
			} else if state[s.Index] == 0 {
				dfs(s)
			}
		}
		state[b.Index] = 2
	}
	dfs(callee.Blocks[0])
	if cyc {
		return false
	}
	for _, b := range callee.Blocks {
		for _, in := range b.Instrs {
			switch x := in.(type) {
			case *ssa.Defer, *ssa.Go, *ssa.Select, *ssa.MakeClosure, *ssa.Range, *ssa.Next, *ssa.RunDefers, *ssa.Send:
				return false
			case *ssa.Call:
				if x.Call.StaticCallee() == callee {
					return false
				}
			}
		}
	}
	return true
}

// pureInline: the body of an inlinable callee writes no memory.
func pureInline(tr *FnTrans, fn *ssa.Function, depth int) bool {
	if depth > 3 {
		return false
	}
	for _, b := range fn.Blocks {
		for _, in := range b.Instrs {
			switch x := in.(type) {
			case *ssa.Store:
				if a, ok := x.Addr.(*ssa.Alloc); ok && !a.Heap {
					continue
				}
				if fa, ok := x.Addr.(*ssa.FieldAddr); ok {
					if a, ok := fa.X.(*ssa.Alloc); ok && !a.Heap {
						continue
					}
				}
				return false
			case *ssa.MapUpdate:
				return false
			case *ssa.Call:
				if bi, ok := x.Call.Value.(*ssa.Builtin); ok {
					switch bi.Name() {
					case "append", "copy", "delete", "close":
						return false
					}
					continue
				}
				callee := x.Call.StaticCallee()
				if callee == nil {
					return false
				}
				cfc := tr.w.contractFor(callee)
				if cfc == nil {
					if tr.inlinable(callee) && pureInline(tr, callee, depth+1) {
						continue
					}
					return false
				}
				if cfc.ModAll || cfc.ModHeap || len(cfc.Modifies) > 0 {
					return false
				}
			}
		}
	}
	return true
}

func (tr *FnTrans) inlineCall(callee *ssa.Function, args []Val) Val {
	vc := tr.vc
	cname := relName(callee)
	vc.funcsUsed["inlined:"+cname] = true
	child := &FnTrans{vc: vc, w: tr.w, fn: callee, name: tr.name + "/inl:" + cname, scan: tr.scan, inlineDepth: tr.inlineDepth + 1}
	if callee.Pkg != nil {
		child.pkg = callee.Pkg.Pkg
	}
	child.vals = map[ssa.Value]Val{}
	child.reach = map[int]string{}
	child.outHeap = map[int]*Heap{}
	child.edge = map[[2]int]string{}
	child.written = map[int]map[string]bool{}
	if tr.inlineCtr == nil {
		tr.inlineCtr = map[string]map[string]int{}
	}
	if tr.inlineCtr[cname] == nil {
		tr.inlineCtr[cname] = map[string]int{}
	}
	child.counters = tr.inlineCtr[cname]
	child.inlineCtr = tr.inlineCtr
	child.ranges = map[ssa.Value]*rangeState{}
	child.callOrd = map[string]int{}
	child.atOrd = map[string]int{}
	child.binds = map[string]Val{}
	child.atUsed = map[int]bool{}
	child.selStates = map[ssa.Value][]Val{}
	child.ghostLocals = map[string]string{}
	child.analyze()
	if len(child.loops) > 0 {
		panic(vcErrorf("inlining %s: loops", cname))
	}
	child.wrapping = tr.wrapping
	child.entryHeap = tr.entryHeap
	child.entryAlloc = tr.entryAlloc
	child.cur = tr.cur
	child.curReach = tr.curReach
	child.curBlock = callee.Blocks[0]
	child.paramEnv = map[string]Val{}
	child.modComps = tr.modComps
	child.modByComp = tr.modByComp
	if len(args) != len(callee.Params) {
		panic(vcErrorf("inlining %s: %d arguments for %d parameters", cname, len(args), len(callee.Params)))
	}
	for i, p := range callee.Params {
		child.vals[p] = args[i]
		child.paramEnv[p.Name()] = args[i]
	}
	for _, b := range child.order {
		child.block(b)
	}
	if len(child.returns) == 0 {
		// never returns normally: the rest of this path is unreachable
		tr.fact("false")
		rt := resultType(callee.Signature)
		if rt == nil {
			return Val{K: KUnit}
		}
		return tr.freshVal("ret$"+cname, rt)
	}
	var conds []string
	var heaps []*Heap
	for _, r := range child.returns {
		conds = append(conds, r.cond)
		heaps = append(heaps, r.heap)
	}
	// the path continues iff the callee returns
	tr.fact(sOr(conds...))
	tr.cur = child.mergeHeaps(conds, heaps)
	nres := len(child.returns[0].results)
	results := make([]Val, nres)
	for i := 0; i < nres; i++ {
		v := child.returns[len(child.returns)-1].results[i]
		for j := len(child.returns) - 2; j >= 0; j-- {
			v = child.iteVal(child.returns[j].cond, child.returns[j].results[i], v)
		}
		results[i] = v
	}
	switch nres {
	case 0:
		return Val{K: KUnit}
	case 1:
		return results[0]
	}
	return Val{K: KTuple, Fields: results, Typ: callee.Signature.Results()}
}

// ---------------------------------------------------------------- closures refine their function type's contract

func (tr *FnTrans) ownParamNames() map[string]bool {
	m := map[string]bool{}
	for _, p := range tr.fn.Params {
		m[p.Name()] = true
	}
	if tr.fc != nil {
		for _, p := range tr.fc.Params {
			m[p.Name] = true
		}
	}
	return m
}

func mentionsNames(e Expr, names map[string]bool) bool {
	found := false
	var walk func(e Expr)
	walk = func(e Expr) {
		if e == nil || found {
			return
		}
		switch x := e.(type) {
		case *EIdent:
			if names[x.Name] {
				found = true
			}
		case *ECall:
			for _, a := range x.Args {
				walk(a)
			}
		case *EBin:
			walk(x.L)
			walk(x.R)
		case *EUn:
			walk(x.X)
		case *EIndex:
			walk(x.X)
			walk(x.I)
		case *ESlice:
			walk(x.X)
			walk(x.Lo)
			walk(x.Hi)
		case *ESel:
			walk(x.X)
		case *EQuant:
			walk(x.Body)
		case *EIte:
			walk(x.C)
			walk(x.A)
			walk(x.B)
		}
	}
	walk(e)
	return found
}

// refineCtx evaluates clauses of the function type's contract with its
// parameter names bound to this closure's parameters (by position).
func (tr *FnTrans) refineCtx(heap, old *Heap, results []Val) *evalCtx {
	f := tr.refines
	extra := map[string]Val{}
	if len(f.Params) != len(tr.fn.Params) {
		panic(vcErrorf("function type contract lists %d parameters, closure has %d", len(f.Params), len(tr.fn.Params)))
	}
	for i, p := range f.Params {
		extra[p.Name] = tr.vals[tr.fn.Params[i]]
	}
	for i, r := range f.Results {
		if i < len(results) {
			extra[r.Name] = results[i]
		}
	}
	ec := tr.specCtx(heap, old, extra)
	if pp, ok := tr.w.functypePkgPath[f]; ok {
		if tp := tr.w.tpkgs[pp]; tp != nil {
			ec.pkg = tp
		}
	}
	return ec
}

// refinePost: the closure's body establishes the function type's
// postconditions and stays within its frame.
func (tr *FnTrans) refinePost(fin *Heap, anyRet string, results []Val) {
	vc := tr.vc
	f := tr.refines
	fec := tr.refineCtx(fin, tr.entryHeap, results)
	for _, c := range f.Ensures {
		vc.oblig(tr.name+"#refines:"+c.Label, "refines", sImp(anyRet, fec.evalBool(c.E)), "postcondition of the function type: "+c.Text)
	}
	if f.ModAll {
		return
	}
	// frame: components the closure may modify must be modifiable under the
	// function type's contract
	pre := tr.refineCtx(tr.entryHeap, tr.entryHeap, nil)
	allowed := map[string]bool{}
	for _, m := range f.Modifies {
		for _, t := range tr.modTargets(pre, m) {
			allowed[t.comp] = true
		}
	}
	excepted := map[string]bool{}
	for _, m := range f.ModExcept {
		for _, t := range tr.modTargets(pre, m) {
			excepted[t.comp] = true
		}
	}
	var bad []string
	for c := range tr.modComps {
		isGhost := strings.HasPrefix(c, "G$")
		switch {
		case allowed[c]:
		case f.ModHeap && !isGhost && !excepted[c]:
		default:
			bad = append(bad, c)
		}
	}
	sort.Strings(bad)
	term, desc := "true", "the closure's modifies clause stays within the function type's frame"
	if tr.fc.ModAll || (tr.fc.ModHeap && !f.ModHeap) {
		term, desc = "false", "the closure may modify everything, the function type's contract does not allow that"
	} else if len(bad) > 0 {
		term, desc = "false", "the closure may modify "+strings.Join(bad, ", ")+", which the function type's contract keeps unchanged"
	}
	vc.oblig(tr.name+"#refines-frame", "refines", term, desc)
}
