package main

// Structural obligations ("sites"): the set of program sites of a given kind
// in a package must lie within the functions a declaration lists. They are
// decided on the SSA of the package, not by the SMT solvers, and reported as
// obligations of class "sites".

import (
	"fmt"
	"go/constant"
	"go/token"
	"go/types"
	"sort"
	"strings"

	"golang.org/x/tools/go/ssa"
)

func (w *World) pkgFuncs(pkgPath string) []*ssa.Function {
	var out []*ssa.Function
	for fn := range w.allFuncs {
		if len(fn.Blocks) == 0 {
			continue
		}
		p := fn.Pkg
		if p == nil && fn.Parent() != nil {
			p = fn.Parent().Pkg
		}
		if p != nil && p.Pkg.Path() == pkgPath {
			out = append(out, fn)
		}
	}
	sort.Slice(out, func(i, j int) bool { return out[i].String() < out[j].String() })
	return out
}

func relName(fn *ssa.Function) string {
	p := fn.Pkg
	if p == nil && fn.Parent() != nil {
		p = fn.Parent().Pkg
	}
	if p == nil {
		return fn.String()
	}
	return fn.RelString(p.Pkg)
}

func fieldSubject(t types.Type, idx int) string {
	if p, ok := t.Underlying().(*types.Pointer); ok {
		t = p.Elem()
	}
	n, ok := t.(*types.Named)
	if !ok {
		return ""
	}
	return n.Obj().Name() + "." + structOf(t).Field(idx).Name()
}

// siteVC builds the structural obligations of one package.
func (w *World) siteVC(pkgPath string, only map[string]bool) (*VC, error) {
	cf := w.cfiles[pkgPath]
	if cf == nil {
		return nil, fmt.Errorf("no contract file for %s", pkgPath)
	}
	vc := newVC(w, "sites "+shortPkg(pkgPath))
	fns := w.pkgFuncs(pkgPath)
	// package-level variables with a declared invariant are never written
	// outside the package initialiser
	for _, g := range cf.Globals {
		label := "global " + g.Name
		if only != nil && !only[label] {
			continue
		}
		var bad []string
		for _, fn := range fns {
			if fn.Name() == "init" || strings.HasPrefix(fn.Name(), "init#") {
				continue
			}
			for _, b := range fn.Blocks {
				for _, in := range b.Instrs {
					// any use other than a plain load (store, address taken,
					// passed on) counts as a possible write
					if un, isLoad := in.(*ssa.UnOp); !isLoad || un.Op != token.MUL {
						if _, isStore := in.(*ssa.Store); !isStore {
							for _, op := range in.Operands(nil) {
								if gl, ok := (*op).(*ssa.Global); ok && gl.Name() == g.Name && gl.Pkg == fn.Pkg {
									bad = append(bad, relName(fn))
								}
							}
						}
					}
					switch x := in.(type) {
					case *ssa.Store:
						if gl, ok := x.Addr.(*ssa.Global); ok && gl.Name() == g.Name {
							bad = append(bad, relName(fn))
						}
					case *ssa.MapUpdate:
						if un, ok := x.Map.(*ssa.UnOp); ok {
							if gl, ok := un.X.(*ssa.Global); ok && gl.Name() == g.Name {
								bad = append(bad, relName(fn))
							}
						}
					}
				}
			}
		}
		term, desc := "true", label+": never written outside the package initialiser"
		if len(bad) > 0 {
			term, desc = "false", label+": written by "+strings.Join(bad, ", ")
		}
		vc.oblig("sites "+shortPkg(pkgPath)+"#"+strings.ReplaceAll(label, " ", ":"), "sites", term, desc)
	}
	for _, sd := range cf.Sites {
		label := sd.Kind + " " + sd.Subject
		if only != nil && !only[label] {
			continue
		}
		allowed := map[string]bool{}
		for _, a := range sd.Allowed {
			allowed[a] = true
		}
		found := map[string][]string{}
		add := func(fn *ssa.Function, pos token.Pos) {
			ps := w.fset.Position(pos)
			found[relName(fn)] = append(found[relName(fn)], fmt.Sprintf("%s:%d", strings.TrimPrefix(ps.Filename, w.repo+"/"), ps.Line))
		}
		subj := sd.Subject
		argFilter := ""
		if k := strings.Index(subj, "("); k >= 0 && sd.Kind == "invokes" {
			argFilter = strings.TrimSuffix(subj[k+1:], ")")
			subj = subj[:k]
		}
		for _, fn := range fns {
			for _, b := range fn.Blocks {
				for _, in := range b.Instrs {
					switch sd.Kind {
					case "writers":
						if call, ok := in.(*ssa.Call); ok {
							// sync/atomic writers of the field
							if callee := call.Call.StaticCallee(); callee != nil && callee.Pkg != nil && callee.Pkg.Pkg.Path() == "sync/atomic" && !strings.HasPrefix(callee.Name(), "Load") && len(call.Call.Args) > 0 {
								if fa, ok := call.Call.Args[0].(*ssa.FieldAddr); ok && fieldSubject(fa.X.Type(), fa.Field) == subj {
									add(fn, call.Pos())
								}
							}
							continue
						}
						st, ok := in.(*ssa.Store)
						if !ok {
							continue
						}
						if fa, ok := st.Addr.(*ssa.FieldAddr); ok && fieldSubject(fa.X.Type(), fa.Field) == subj {
							add(fn, st.Pos())
						}
					case "sends":
						switch x := in.(type) {
						case *ssa.Send:
							if chanClass(x.Chan) == subj {
								add(fn, x.Pos())
							}
						case *ssa.Select:
							for _, stt := range x.States {
								if stt.Dir == types.SendOnly && chanClass(stt.Chan) == subj {
									add(fn, stt.Pos)
								}
							}
						}
					case "recvs":
						switch x := in.(type) {
						case *ssa.UnOp:
							if x.Op == token.ARROW && chanClass(x.X) == subj {
								add(fn, x.Pos())
							}
						case *ssa.Select:
							for _, stt := range x.States {
								if stt.Dir == types.RecvOnly && chanClass(stt.Chan) == subj {
									add(fn, stt.Pos)
								}
							}
						}
					case "selectsends":
						// every send on the channel is one case of a select that has
						// another case or a default (it cannot block forever on its own)
						switch x := in.(type) {
						case *ssa.Send:
							if chanClass(x.Chan) == subj {
								add(fn, x.Pos())
							}
						case *ssa.Select:
							for _, stt := range x.States {
								if stt.Dir == types.SendOnly && chanClass(stt.Chan) == subj && x.Blocking && len(x.States) < 2 {
									add(fn, stt.Pos)
								}
							}
						}
					case "callsites":
						var cc *ssa.CallCommon
						switch x := in.(type) {
						case *ssa.Call:
							cc = &x.Call
						case *ssa.Defer:
							cc = &x.Call
						case *ssa.Go:
							cc = &x.Call
						case *ssa.MakeClosure:
							// a bound-method closure or function value of the subject
							if f, ok := x.Fn.(*ssa.Function); ok && (relName(f) == subj || relName(f) == subj+"$bound") {
								add(fn, x.Pos())
							}
							continue
						default:
							continue
						}
						if callee := cc.StaticCallee(); callee != nil && relName(callee) == subj {
							add(fn, in.Pos())
						}
					case "invokes":
						var cc *ssa.CallCommon
						switch x := in.(type) {
						case *ssa.Call:
							cc = &x.Call
						case *ssa.Defer:
							cc = &x.Call
						case *ssa.Go:
							cc = &x.Call
						default:
							continue
						}
						if !cc.IsInvoke() {
							continue
						}
						n, ok := cc.Value.Type().(*types.Named)
						if !ok || n.Obj().Name()+"."+cc.Method.Name() != subj {
							continue
						}
						if argFilter != "" {
							if len(cc.Args) == 0 {
								continue
							}
							c, isConst := cc.Args[0].(*ssa.Const)
							if !isConst || c.Value == nil {
								// non-constant first argument: counts for every filter
								add(fn, in.Pos())
								continue
							}
							if c.Value.Kind() == constant.Int && c.Value.ExactString() != argFilter {
								continue
							}
						}
						add(fn, in.Pos())
					case "closureuse":
						mc, ok := in.(*ssa.MakeClosure)
						if !ok {
							continue
						}
						f, ok := mc.Fn.(*ssa.Function)
						if !ok || relName(f) != subj {
							continue
						}
						// every use of the closure value must be an argument of an allowed call
						var uses []ssa.Instruction
						var collect func(v ssa.Value)
						collect = func(v ssa.Value) {
							refs := v.Referrers()
							if refs == nil {
								return
							}
							for _, r := range *refs {
								if ct, ok := r.(*ssa.ChangeType); ok {
									collect(ct) // conversion to a named function type
									continue
								}
								uses = append(uses, r)
							}
						}
						collect(mc)
						for _, r := range uses {
							switch u := r.(type) {
							case *ssa.DebugRef:
							case *ssa.Call:
								name := ""
								if u.Call.IsInvoke() {
									if n, ok := u.Call.Value.Type().(*types.Named); ok {
										name = n.Obj().Name() + "." + u.Call.Method.Name()
									}
								} else if callee := u.Call.StaticCallee(); callee != nil {
									name = callee.String()
								}
								if u.Call.Value == ssa.Value(mc) {
									name = "(called directly)"
								}
								found[name] = append(found[name], w.fset.Position(u.Pos()).String())
							default:
								found[fmt.Sprintf("(other use %T)", r)] = append(found[fmt.Sprintf("(other use %T)", r)], w.fset.Position(r.Pos()).String())
							}
						}
					}
				}
			}
		}
		var bad []string
		var names []string
		for n := range found {
			names = append(names, n)
		}
		sort.Strings(names)
		for _, n := range names {
			if !allowed[n] {
				bad = append(bad, n+" ("+strings.Join(found[n], ", ")+")")
			}
		}
		term := "true"
		desc := fmt.Sprintf("%s: sites found in {%s} are within the declared set {%s}", label, strings.Join(names, ", "), strings.Join(sd.Allowed, ", "))
		if len(bad) > 0 {
			term = "false"
			desc = fmt.Sprintf("%s: site outside the declared set: %s", label, strings.Join(bad, "; "))
		}
		vc.oblig("sites "+shortPkg(pkgPath)+"#"+strings.ReplaceAll(label, " ", ":"), "sites", term, desc)
	}
	return vc, nil
}
