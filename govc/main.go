package main

import (
	"encoding/json"
	"flag"
	"fmt"
	"os"
	"path/filepath"
	"sort"
	"strconv"
	"strings"
	"time"

	"golang.org/x/tools/go/ssa"
)

type PropConfig struct {
	Property   string   `json:"property"`
	Packages   []string `json:"packages"`
	Functions  []string `json:"functions"`   // functions under contract
	SafetyOnly []string `json:"safety_only"` // functions checked for panics only (no contract needed)
	Lemmas     []string `json:"lemmas"`
	Sites      []string `json:"sites"`       // structural obligations: "<pkg>:<kind> <subject>" or "<pkg>:*"
	NotDecided []string `json:"not_decided"`
	Trusted    []string `json:"trusted_base"`
}

type KnownFinding struct {
	Property   string   `json:"property"`
	Status     string   `json:"status"` // open | fixed
	Obligation string   `json:"obligation"`
	Also       []string `json:"also,omitempty"`
	What       string   `json:"what"`
	Witness    string   `json:"witness,omitempty"`
	Commit     string   `json:"commit,omitempty"`
	Why        string   `json:"why_not_fixed,omitempty"`
}

func main() {
	if len(os.Args) < 2 {
		fmt.Fprintln(os.Stderr, "usage: govc check|dump ...")
		os.Exit(2)
	}
	switch os.Args[1] {
	case "check":
		os.Exit(cmdCheck(os.Args[2:]))
	case "dump":
		os.Exit(cmdDump(os.Args[2:]))
	default:
		fmt.Fprintln(os.Stderr, "unknown command", os.Args[1])
		os.Exit(2)
	}
}

func matchFuncs(w *World, patterns []string) ([]*ssa.Function, []string) {
	var out []*ssa.Function
	var missing []string
	seen := map[*ssa.Function]bool{}
	var all []*ssa.Function
	for fn := range w.allFuncs {
		if w.inRepo(fn) && len(fn.Blocks) > 0 {
			all = append(all, fn)
		}
	}
	sort.Slice(all, func(i, j int) bool { return fnDisplayName(all[i]) < fnDisplayName(all[j]) })
	for _, p := range patterns {
		found := false
		for _, fn := range all {
			n := fnDisplayName(fn)
			ok := n == p
			if strings.HasSuffix(p, "*") && strings.HasPrefix(n, strings.TrimSuffix(p, "*")) {
				ok = true
			}
			if ok {
				found = true
				if !seen[fn] {
					seen[fn] = true
					out = append(out, fn)
				}
			}
		}
		if !found {
			missing = append(missing, p)
		}
	}
	return out, missing
}

func cmdDump(args []string) int {
	fs := flag.NewFlagSet("dump", flag.ExitOnError)
	repo := fs.String("repo", "/repo", "")
	verif := fs.String("verif", "/verif", "")
	pkgs := fs.String("pkgs", "./...", "")
	fn := fs.String("fn", "", "function display name")
	out := fs.String("out", "/tmp/govc-dump", "")
	fs.Parse(args)
	w, err := loadWorld(*repo, strings.Split(*pkgs, ","), filepath.Join(*verif, "trusted"))
	if err != nil {
		fmt.Fprintln(os.Stderr, "load:", err)
		return 2
	}
	fns, missing := matchFuncs(w, []string{*fn})
	if len(missing) > 0 {
		fmt.Fprintln(os.Stderr, "no such function:", missing)
		return 2
	}
	os.MkdirAll(*out, 0o755)
	for _, f := range fns {
		vc, err := w.translate(f, w.contractFor(f))
		if err != nil {
			fmt.Println("ERROR", err)
			continue
		}
		for i, it := range vc.Items {
			if it.Kind == itOblig {
				p := filepath.Join(*out, strings.NewReplacer("/", "_", "*", "", "(", "", ")", "", "#", "-", ":", "-").Replace(it.Name)+".smt2")
				os.WriteFile(p, []byte(vc.query(i, "")), 0o644)
				fmt.Println(it.Name, "->", p)
			}
		}
	}
	return 0
}

func loadKnown(verif string) []KnownFinding {
	var kf []KnownFinding
	data, err := os.ReadFile(filepath.Join(verif, "known_findings.json"))
	if err != nil {
		return nil
	}
	if err := json.Unmarshal(data, &kf); err != nil {
		fmt.Fprintln(os.Stderr, "known_findings.json:", err)
		os.Exit(2)
	}
	return kf
}

func cmdCheck(args []string) int {
	fs := flag.NewFlagSet("check", flag.ExitOnError)
	repo := fs.String("repo", "/repo", "")
	verif := fs.String("verif", "/verif", "")
	prop := fs.String("prop", "", "property id")
	tier := fs.String("tier", "quick", "quick|thorough")
	workers := fs.Int("j", 8, "parallel obligations")
	keep := fs.Bool("keep", false, "keep SMT files")
	verbose := fs.Bool("v", false, "")
	noEvidence := fs.Bool("no-evidence", false, "")
	replaysFlag := fs.String("replays", "", "directory for replay files (default <verif>/replays)")
	fs.Parse(args)
	replays := *replaysFlag
	if replays == "" {
		replays = filepath.Join(*verif, "replays")
	}
	start := time.Now()
	seed, _ := strconv.Atoi(os.Getenv("VERIF_SEED"))

	var cfg PropConfig
	data, err := os.ReadFile(filepath.Join(*verif, "props", *prop+".json"))
	if err != nil {
		fmt.Fprintln(os.Stderr, err)
		return 2
	}
	if err := json.Unmarshal(data, &cfg); err != nil {
		fmt.Fprintln(os.Stderr, "props:", err)
		return 2
	}
	w, err := loadWorld(*repo, cfg.Packages, filepath.Join(*verif, "trusted"))
	if err != nil {
		fmt.Fprintln(os.Stderr, "load:", err)
		return 2
	}
	loadT := time.Since(start).Seconds()

	timeout := 10
	if *tier == "thorough" {
		timeout = 60
	}
	var vcs, siteVCs []*VC
	type genFail struct{ fn, err string }
	var genFails []genFail
	var funcsUnder []string
	fns, missing := matchFuncs(w, cfg.Functions)
	for _, m := range missing {
		genFails = append(genFails, genFail{m, "function not found in the repository"})
	}
	for _, fn := range fns {
		fc := w.contractFor(fn)
		if fc == nil {
			genFails = append(genFails, genFail{fnDisplayName(fn), "no contract"})
			continue
		}
		vc, err := w.translate(fn, fc)
		if err != nil {
			genFails = append(genFails, genFail{fnDisplayName(fn), err.Error()})
			continue
		}
		funcsUnder = append(funcsUnder, fnDisplayName(fn))
		vcs = append(vcs, vc)
	}
	sfns, missing2 := matchFuncs(w, cfg.SafetyOnly)
	for _, m := range missing2 {
		genFails = append(genFails, genFail{m, "function not found in the repository"})
	}
	for _, fn := range sfns {
		vc, err := w.translate(fn, w.contractFor(fn))
		if err != nil {
			genFails = append(genFails, genFail{fnDisplayName(fn), err.Error()})
			continue
		}
		funcsUnder = append(funcsUnder, fnDisplayName(fn)+" (safety)")
		vcs = append(vcs, vc)
	}
	for _, ln := range cfg.Lemmas {
		l, ok := w.lemmas[ln]
		if !ok {
			genFails = append(genFails, genFail{"lemma " + ln, "lemma not found"})
			continue
		}
		vc, err := w.lemmaVC(l)
		if err != nil {
			genFails = append(genFails, genFail{"lemma " + ln, err.Error()})
			continue
		}
		funcsUnder = append(funcsUnder, "lemma "+ln)
		vcs = append(vcs, vc)
	}
	// structural obligations
	sitePkgs := map[string]map[string]bool{}
	var sitePkgOrder []string
	for _, sdecl := range cfg.Sites {
		k := strings.Index(sdecl, ":")
		if k < 0 {
			genFails = append(genFails, genFail{"sites " + sdecl, "bad sites entry"})
			continue
		}
		pn, label := sdecl[:k], sdecl[k+1:]
		if _, ok := sitePkgs[pn]; !ok {
			sitePkgs[pn] = map[string]bool{}
			sitePkgOrder = append(sitePkgOrder, pn)
		}
		sitePkgs[pn][label] = true
	}
	for _, pn := range sitePkgOrder {
		var path string
		for pp := range w.cfiles {
			if shortPkg(pp) == pn {
				path = pp
			}
		}
		only := sitePkgs[pn]
		want := len(only)
		if only["*"] {
			only = nil
		}
		vc, err := w.siteVC(path, only)
		if err != nil {
			genFails = append(genFails, genFail{"sites " + pn, err.Error()})
			continue
		}
		n := 0
		for _, it := range vc.Items {
			if it.Kind == itOblig {
				n++
			}
		}
		if only != nil && n != want {
			genFails = append(genFails, genFail{"sites " + pn, fmt.Sprintf("%d of %d listed structural declarations found in the contract file", n, want)})
		}
		funcsUnder = append(funcsUnder, "sites "+pn)
		siteVCs = append(siteVCs, vc)
	}
	// vacuity canaries: `false` must not be provable at the end of each VC
	for _, vc := range vcs {
		vc.Items = append(vc.Items, Item{Kind: itOblig, Name: vc.Name + "#canary", Class: "canary", Term: "false", Desc: "vacuity canary: must NOT be provable"})
	}
	vcs = append(vcs, siteVCs...) // no canary for structural obligations
	genT := time.Since(start).Seconds() - loadT

	dir, _ := os.MkdirTemp("", "govc")
	if !*keep {
		defer os.RemoveAll(dir)
	} else {
		fmt.Println("SMT files in", dir)
	}
	if b, err := os.ReadFile(filepath.Join(*verif, "solver_hints.json")); err == nil {
		var h struct {
			SplitFirst []string `json:"split_first"`
		}
		if json.Unmarshal(b, &h) == nil {
			for _, n := range h.SplitFirst {
				splitFirst[n] = true
			}
		}
	}
	for _, k := range loadKnown(*verif) {
		if k.Status == "open" && k.Property == *prop {
			noRetry[k.Obligation] = true
			for _, a := range k.Also {
				noRetry[a] = true
			}
		}
	}
	results := solveAll(dir, vcs, timeout, *tier == "thorough", *workers)

	known := loadKnown(*verif)
	knownOpen := map[string]KnownFinding{}
	for _, k := range known {
		if k.Status == "open" && k.Property == *prop {
			knownOpen[k.Obligation] = k
			for _, a := range k.Also {
				knownOpen[a] = k
			}
		}
	}

	total, discharged := 0, 0
	byClass := map[string]int{}
	bySolver := map[string]int{}
	solverTime := 0.0
	var failed []*obResult
	var vacuous []string
	var samples []map[string]interface{}
	knownSeen := map[string]bool{}
	slowest := 0.0
	var hard []map[string]interface{}
	for _, r := range results {
		if r.Class == "canary" {
			if r.Status == "unsat" {
				vacuous = append(vacuous, r.Func)
			}
			continue
		}
		if _, isKnown := knownOpen[r.Name]; isKnown {
			if r.Status != "unsat" {
				knownSeen[r.Name] = true
				continue
			}
			// a known finding that now discharges: stale entry, counted normally
			fmt.Printf("NOTE: known finding %s now discharges (stale entry?)\n", r.Name)
		}
		total++
		byClass[r.Class]++
		if r.Status == "unsat" {
			discharged++
			bySolver[r.Solver]++
			solverTime += r.Time
			if r.Time > slowest {
				slowest = r.Time
			}
			if r.Time > 3 || strings.Contains(r.Solver, "/") {
				hard = append(hard, map[string]interface{}{"obligation": r.Name, "solver": r.Solver, "time_s": round2(r.Time)})
			}
			if len(samples) < 12 && (r.Class == "ensures" || r.Class == "inv" || r.Class == "pre" || len(samples) < 4) {
				samples = append(samples, map[string]interface{}{"obligation": r.Name, "class": r.Class, "solver": r.Solver, "time_s": r.Time, "smt_bytes": r.Size, "what": r.Desc})
			}
		} else {
			failed = append(failed, r)
		}
		if *verbose {
			fmt.Printf("  %-8s %-10s %6.2fs %s\n", r.Status, r.Solver, r.Time, r.Name)
		}
	}

	violations := 0
	os.MkdirAll(filepath.Join(replays, *prop), 0o755)
	sanitize := strings.NewReplacer("/", "_", "*", "", "(", "", ")", "", "#", "-", ":", "-", " ", "_", "$", "_")
	for _, k := range sortedKeys(knownSeen) {
		kf := knownOpen[k]
		fmt.Printf("KNOWN-FINDING: property=%s %s: %s\n", *prop, k, kf.What)
	}
	for _, gf := range genFails {
		violations++
		p := filepath.Join(replays, *prop, sanitize.Replace(gf.fn)+".cannot-generate.json")
		writeJSON(p, map[string]interface{}{"property": *prop, "obligation": gf.fn + "#cannot-generate", "reason": gf.err,
			"note": "the function under contract could not be translated; all its obligations count as failed"})
		fmt.Printf("VIOLATION property=%s replay=%s obligation=%s#cannot-generate (%s) no-failing-input-found\n", *prop, p, gf.fn, gf.err)
	}
	for _, v := range vacuous {
		violations++
		p := filepath.Join(replays, *prop, sanitize.Replace(v)+".vacuous.json")
		writeJSON(p, map[string]interface{}{"property": *prop, "obligation": v + "#canary", "reason": "assumptions of this function are contradictory: `false` is provable"})
		fmt.Printf("VIOLATION property=%s replay=%s obligation=%s#canary (contradictory assumptions) no-failing-input-found\n", *prop, p, v)
	}
	for _, r := range failed {
		violations++
		p := filepath.Join(replays, *prop, sanitize.Replace(r.Name)+".json")
		rep := map[string]interface{}{"property": *prop, "obligation": r.Name, "class": r.Class, "function": r.Func, "what": r.Desc,
			"solver_status": r.Status, "solver": r.Solver, "solver_output": r.Output, "reproduced": false}
		suffix := " no-failing-input-found"
		if rp := tryReplay(w, *verif, r, rep); rp {
			suffix = ""
		}
		writeJSON(p, rep)
		if os.Getenv("GOVC_BRIEF") != "" {
			fmt.Printf("FAIL %-7s %s\n", r.Status, r.Name)
			continue
		}
		fmt.Printf("VIOLATION property=%s replay=%s obligation=%s (%s: %s)%s\n", *prop, p, r.Name, r.Status, r.Desc, suffix)
	}

	// assumptions / trusted base
	assum := map[string]bool{}
	havocs := map[string]bool{}
	for _, vc := range vcs {
		for a := range vc.assumptions {
			assum[a] = true
		}
		for f := range vc.funcsUsed {
			havocs[f] = true
		}
	}
	trusted := append([]string{}, cfg.Trusted...)
	trusted = append(trusted,
		"govc VC generator (go/ssa -> SMT-LIB; memory model, loop cutting, call rule) — unverified, guarded by must-fail corpus and vacuity canaries",
		"golang.org/x/tools v0.29.0 go/ssa lowering of the type-checked source",
		"SMT solvers z3 4.8.12, z3 5.1.0, cvc5 1.0.3 (an obligation counts as discharged when one answers unsat; thorough: two)",
		"slice/string lengths are below 2^48 (address space); allocation yields fresh references")
	for _, a := range sortedKeys(assum) {
		trusted = append(trusted, a)
	}
	for _, a := range sortedKeys(havocs) {
		trusted = append(trusted, "callee without contract treated as arbitrary effect ("+strings.TrimPrefix(a, "havoc:")+")")
	}
	if os.Getenv("GOVC_HAVOC") != "" {
		for _, a := range sortedKeys(havocs) {
			fmt.Println("HAVOC", a)
		}
	}
	wall := time.Since(start).Seconds()
	if total == 0 {
		fmt.Printf("VIOLATION property=%s replay=%s obligation=none (zero obligations generated) no-failing-input-found\n", *prop, filepath.Join(replays, *prop, "zero.json"))
		writeJSON(filepath.Join(replays, *prop, "zero.json"), map[string]interface{}{"property": *prop, "reason": "no obligations were generated"})
		violations++
	}
	fmt.Printf("property %s tier %s: %d obligations, %d discharged, %d failed, %d known findings seen, %d functions; load %.1fs gen %.1fs total %.1fs\n",
		*prop, *tier, total, discharged, len(failed), len(knownSeen), len(funcsUnder), loadT, genT, wall)
	if !*noEvidence {
		ev := map[string]interface{}{
			"property_id": *prop, "tier": *tier, "seed": seed, "level": "proof",
			"coverage": map[string]interface{}{
				"obligations": total, "discharged": discharged,
				"checker_cmd":  fmt.Sprintf("/verif/bin/govc check -prop %s -tier %s", *prop, *tier),
				"trusted_base": trusted,
				"functions_under_contract": funcsUnder,
				"obligations_by_class":     byClass,
				"discharged_by_solver":     bySolver,
				"solver_time_s":            round2(solverTime),
				"slowest_obligation_s":     round2(slowest),
				"hard_obligations":         hard,
				"per_obligation_timeout_s": timeout,
				"samples":                  samples,
				"known_findings_seen":      sortedKeys(knownSeen),
				"vacuity":                  map[string]interface{}{"canaries_checked": len(vcs), "canaries_provable": len(vacuous)},
				"not_decided":              cfg.NotDecided,
				"explanation":              "every obligation is an SMT query generated from the SSA of the real function in /repo's working tree and its //@ contract; discharged = unsat",
			},
			"assumptions": trusted,
			"wall_s":      round2(wall),
			"violations":  violations,
		}
		os.MkdirAll(filepath.Join(*verif, "evidence"), 0o755)
		writeJSON(filepath.Join(*verif, "evidence", *prop+".json"), ev)
	}
	if violations > 0 {
		return 1
	}
	return 0
}

func round2(f float64) float64 { return float64(int(f*100+0.5)) / 100 }

func sortedKeys(m map[string]bool) []string {
	var ks []string
	for k := range m {
		ks = append(ks, k)
	}
	sort.Strings(ks)
	return ks
}

func writeJSON(path string, v interface{}) {
	data, _ := json.MarshalIndent(v, "", " ")
	os.WriteFile(path, append(data, '\n'), 0o644)
}

// tryReplay: counterexample replay against the real code (see replay.go).
func tryReplay(w *World, verif string, r *obResult, rep map[string]interface{}) bool {
	return replayObligation(w, verif, r, rep)
}
