package main

// Evaluation of contract expressions to SMT terms.

import (
	"fmt"
	"go/constant"
	"go/token"
	"go/types"
	"math/big"
	"strings"
)

type evalCtx struct {
	vc         *VC
	env        map[string]Val
	heap       *Heap
	old        *Heap
	pkg        *types.Package
	entryAlloc string
	// when defining a spec function, heap components are formals
	specDef  bool
	specUsed *[]string
	// extra hook for names (loop locals)
	lookup func(name string) (Val, bool)
}

func (ec *evalCtx) with(env map[string]Val) *evalCtx {
	n := *ec
	n.env = map[string]Val{}
	for k, v := range ec.env {
		n.env[k] = v
	}
	for k, v := range env {
		n.env[k] = v
	}
	return &n
}

func (ec *evalCtx) hget(comp string) string {
	if ec.specDef {
		found := false
		for _, c := range *ec.specUsed {
			if c == comp {
				found = true
			}
		}
		if !found {
			*ec.specUsed = append(*ec.specUsed, comp)
		}
		return qsym("H!" + comp)
	}
	if ec.heap == nil {
		panic(vcErrorf("heap access in a heap-free context (%s)", comp))
	}
	return ec.vc.hget(ec.heap, comp)
}

func (ec *evalCtx) loadLoc(l *Loc) string {
	c := ec.hget(l.Comp)
	if l.Idx2 != "" {
		return sSel(sSel(c, l.Idx), l.Idx2)
	}
	return sSel(c, l.Idx)
}

// resolveType parses a Go type string in the scope of the contract's package.
func (ec *evalCtx) resolveType(s string) types.Type {
	s = strings.TrimSpace(s)
	switch s {
	case "int", "nat":
		return types.Typ[types.Int]
	case "bool":
		return types.Typ[types.Bool]
	case "string":
		return types.Typ[types.String]
	case "byte":
		return types.Universe.Lookup("byte").Type()
	case "iface": // interface{}
		return types.NewInterfaceType(nil, nil).Complete()
	}
	if ec.pkg == nil {
		panic(vcErrorf("cannot resolve type %q without a package", s))
	}
	tv, err := types.Eval(ec.vc.w.fset, ec.pkg, token.NoPos, s)
	if err != nil || !tv.IsType() {
		// try fully qualified "pkg.Type" through the repo's packages
		if i := strings.LastIndex(s, "."); i >= 0 {
			star := strings.HasPrefix(s, "*")
			pn := strings.TrimPrefix(s[:i], "*")
			for path, tp := range ec.vc.w.tpkgs {
				if shortPkg(path) == pn || path == pn {
					if o := tp.Scope().Lookup(s[i+1:]); o != nil {
						if tn, ok := o.(*types.TypeName); ok {
							if star {
								return types.NewPointer(tn.Type())
							}
							return tn.Type()
						}
					}
				}
			}
		}
		// a type expression that mentions (possibly unexported) types of one
		// other repository package: evaluate it in that package's scope
		for path, tp := range ec.vc.w.tpkgs {
			if !strings.HasPrefix(path, modPath) {
				continue
			}
			q := shortPkg(path) + "."
			if !strings.Contains(s, q) {
				continue
			}
			if tv2, err2 := types.Eval(ec.vc.w.fset, tp, token.NoPos, strings.ReplaceAll(s, q, "")); err2 == nil && tv2.IsType() {
				return tv2.Type
			}
		}
		panic(vcErrorf("cannot resolve type %q: %v", s, err))
	}
	return tv.Type
}

// ghost types:  int bool string  map[K]V  -> SMT sorts
func ghostSort(s string) string {
	s = strings.TrimSpace(s)
	switch s {
	case "int", "ref", "lock":
		return sortInt
	case "bool":
		return sortBool
	case "string":
		return sortStr
	case "iface":
		return sortIface
	case "Lv":
		return "Lv"
	}
	if strings.HasPrefix(s, "map[") {
		depth := 0
		for i := 3; i < len(s); i++ {
			if s[i] == '[' {
				depth++
			} else if s[i] == ']' {
				depth--
				if depth == 0 {
					return arrSort(ghostSort(s[4:i]), ghostSort(s[i+1:]))
				}
			}
		}
	}
	panic(vcErrorf("unsupported ghost type %q", s))
}

const KArr Kind = 100 // SMT array value (ghost maps); Val.Sort holds the sort

func sortKind(sort string) Kind {
	switch sort {
	case sortInt:
		return KInt
	case sortBool:
		return KBool
	case sortStr:
		return KStr
	case sortIface:
		return KIface
	case sortSlice:
		return KSlice
	}
	return KArr
}

// splitArrSort splits "(Array I E)" into I and E.
func splitArrSort(s string) (string, string) {
	if !strings.HasPrefix(s, "(Array ") {
		panic(vcErrorf("not an array sort: %s", s))
	}
	body := s[7 : len(s)-1]
	depth := 0
	for i := 0; i < len(body); i++ {
		switch body[i] {
		case '(':
			depth++
		case ')':
			depth--
		case ' ':
			if depth == 0 {
				return body[:i], body[i+1:]
			}
		}
	}
	panic(vcErrorf("bad array sort %s", s))
}

func ghostComp(name string) string { return "G$" + name }

func mathInt(t string) Val  { return Val{K: KInt, T: t, Typ: types.Typ[types.UntypedInt]} }
func boolVal(t string) Val  { return Val{K: KBool, T: t, Typ: types.Typ[types.Bool]} }

func (ec *evalCtx) evalBool(e Expr) string {
	v := ec.eval(e)
	if v.K != KBool {
		panic(vcErrorf("expected a boolean expression, got %v in %s", v.K, exprString(e)))
	}
	return v.T
}

func (ec *evalCtx) evalInt(e Expr) string {
	v := ec.eval(e)
	if v.K != KInt && v.K != KRef && v.K != KOpaque {
		panic(vcErrorf("expected an integer expression, got %v in %s", v.K, exprString(e)))
	}
	return v.T
}

func constVal(vc *VC, c *types.Const) Val {
	v := c.Val()
	switch v.Kind() {
	case constant.Int:
		bi, _ := new(big.Int).SetString(v.ExactString(), 10)
		return Val{K: KInt, T: sBig(bi), Typ: c.Type()}
	case constant.Bool:
		return Val{K: KBool, T: fmt.Sprint(constant.BoolVal(v)), Typ: c.Type()}
	case constant.String:
		return Val{K: KStr, T: vc.strLit(constant.StringVal(v)), Typ: c.Type()}
	}
	panic(vcErrorf("unsupported constant %s", c.Name()))
}

func (ec *evalCtx) lookupIdent(name string) Val {
	if v, ok := ec.env[name]; ok {
		return v
	}
	if ec.lookup != nil {
		if v, ok := ec.lookup(name); ok {
			return v
		}
	}
	if g, ok := ec.vc.w.ghosts[name]; ok {
		sort := ghostSort(g.Type)
		comp := ghostComp(name)
		ec.vc.compDecl(comp, sort)
		return Val{K: sortKind(sort), T: ec.hget(comp), Sort: sort}
	}
	if ec.pkg != nil {
		if o := ec.pkg.Scope().Lookup(name); o != nil {
			switch x := o.(type) {
			case *types.Const:
				return constVal(ec.vc, x)
			case *types.Var:
				comp := ec.vc.globalComp(shortPkg(ec.pkg.Path()), name, x.Type())
				return scalarVal(x.Type(), sSel(ec.hget(comp), "0"))
			}
		}
	}
	panic(vcErrorf("unknown identifier %q", name))
}

func (ec *evalCtx) pkgMember(pkgName, name string) (Val, bool) {
	for path, tp := range ec.vc.w.tpkgs {
		if shortPkg(path) != pkgName {
			continue
		}
		if o := tp.Scope().Lookup(name); o != nil {
			switch x := o.(type) {
			case *types.Const:
				return constVal(ec.vc, x), true
			case *types.Var:
				comp := ec.vc.globalComp(shortPkg(path), name, x.Type())
				return scalarVal(x.Type(), sSel(ec.hget(comp), "0")), true
			}
		}
	}
	return Val{}, false
}

func fieldIndex(s *types.Struct, name string) int {
	for i := 0; i < s.NumFields(); i++ {
		if s.Field(i).Name() == name {
			return i
		}
	}
	return -1
}

func (ec *evalCtx) selField(x Val, name string) Val {
	switch x.K {
	case KRef:
		s := structOf(x.Typ)
		if s == nil {
			panic(vcErrorf("selector .%s on non-struct %s", name, x.Typ))
		}
		i := fieldIndex(s, name)
		if i < 0 {
			// promoted through embedded fields
			for j := 0; j < s.NumFields(); j++ {
				if s.Field(j).Embedded() {
					inner := ec.selField(x, s.Field(j).Name())
					if st := structOf(inner.Typ); st != nil && fieldIndex(st, name) >= 0 {
						return ec.selField(inner, name)
					}
				}
			}
			panic(vcErrorf("no field %s in %s", name, x.Typ))
		}
		f := ec.vc.fieldOf(x.Typ, i, x.T)
		if f.K == KRef {
			return f
		}
		return scalarVal(s.Field(i).Type(), ec.loadLoc(f.Loc))
	case KStruct:
		s := x.Typ.Underlying().(*types.Struct)
		i := fieldIndex(s, name)
		if i < 0 {
			panic(vcErrorf("no field %s in %s", name, x.Typ))
		}
		return x.Fields[i]
	}
	panic(vcErrorf("selector .%s on %v value", name, x.K))
}

func sliceElem(t types.Type) types.Type {
	if s, ok := t.Underlying().(*types.Slice); ok {
		return s.Elem()
	}
	panic(vcErrorf("not a slice type: %s", t))
}

func (ec *evalCtx) indexVal(x Val, i string) Val {
	switch x.K {
	case KSlice:
		et := sliceElem(x.Typ)
		idx := sAdd("(s-off "+x.T+")", i)
		if kindOf(et) == KStruct {
			return Val{K: KRef, T: ec.vc.elemRef(et, "(s-arr "+x.T+")", idx), Typ: types.NewPointer(et)}
		}
		comp := ec.vc.elemComp(et)
		return scalarVal(et, sSel(sSel(ec.hget(comp), "(s-arr "+x.T+")"), idx))
	case KStr:
		return Val{K: KInt, T: sApp("sat", x.T, i), Typ: types.Typ[types.Uint8]}
	case KArr:
		_, es := splitArrSort(x.Sort)
		return Val{K: sortKind(es), T: sSel(x.T, i), Sort: es}
	case KRef:
		if mt, ok := x.Typ.Underlying().(*types.Map); ok {
			_, mv, _, _ := ec.vc.mapComps(x.Typ)
			return scalarVal(mt.Elem(), sSel(sSel(ec.hget(mv), x.T), i))
		}
	}
	panic(vcErrorf("cannot index a %v value", x.K))
}

func (ec *evalCtx) eqVals(a, b Val) string {
	if a.K == KStruct && b.K == KStruct {
		var ps []string
		for i := range a.Fields {
			ps = append(ps, ec.eqVals(a.Fields[i], b.Fields[i]))
		}
		return sAnd(ps...)
	}
	if a.K == KStruct || b.K == KStruct {
		panic(vcErrorf("comparison of struct with non-struct"))
	}
	if (a.K == KPtr && a.T == "") || (b.K == KPtr && b.T == "") {
		panic(vcErrorf("comparison of non-first-class pointers"))
	}
	return sEq(a.T, b.T)
}

func (ec *evalCtx) isNil(v Val) string {
	switch v.K {
	case KPtr:
		if v.T == "" { // address of a field/element of an object: never nil
			return "false"
		}
		return sEq(v.T, "0")
	case KRef, KInt:
		return sEq(v.T, "0")
	case KIface:
		return sEq("(i-tag "+v.T+")", "0")
	case KSlice:
		return sEq("(s-arr "+v.T+")", "0")
	}
	panic(vcErrorf("nil comparison on %v", v.K))
}

func isNilExpr(e Expr) bool { _, ok := e.(*ENil); return ok }

func (ec *evalCtx) eval(e Expr) Val {
	vc := ec.vc
	switch x := e.(type) {
	case *EInt:
		return mathInt(sBig(x.V))
	case *EBool:
		return boolVal(fmt.Sprint(x.V))
	case *EStr:
		return Val{K: KStr, T: vc.strLit(x.V), Typ: types.Typ[types.String]}
	case *ENil:
		return Val{K: KRef, T: "0"}
	case *EIdent:
		return ec.lookupIdent(x.Name)
	case *ESel:
		if id, ok := x.X.(*EIdent); ok {
			if _, bound := ec.env[id.Name]; !bound {
				if v, ok := ec.pkgMember(id.Name, x.Name); ok {
					return v
				}
			}
		}
		return ec.selField(ec.eval(x.X), x.Name)
	case *EIndex:
		xv := ec.eval(x.X)
		iv := ec.eval(x.I)
		return ec.indexVal(xv, iv.T)
	case *ESlice:
		xv := ec.eval(x.X)
		lo := "0"
		if x.Lo != nil {
			lo = ec.evalInt(x.Lo)
		}
		switch xv.K {
		case KSlice:
			hi := "(s-len " + xv.T + ")"
			if x.Hi != nil {
				hi = ec.evalInt(x.Hi)
			}
			return Val{K: KSlice, Typ: xv.Typ, T: fmt.Sprintf("(mk-slice (s-arr %s) %s %s %s)", xv.T, sAdd("(s-off "+xv.T+")", lo), sSub(hi, lo), sSub("(s-cap "+xv.T+")", lo))}
		case KStr:
			hi := sApp("slen", xv.T)
			if x.Hi != nil {
				hi = ec.evalInt(x.Hi)
			}
			return Val{K: KStr, Typ: xv.Typ, T: sApp("substr", xv.T, lo, sSub(hi, lo))}
		}
		panic(vcErrorf("slice expression on %v", xv.K))
	case *EUn:
		switch x.Op {
		case "!":
			return boolVal(sNot(ec.evalBool(x.X)))
		case "-":
			return mathInt("(- " + ec.evalInt(x.X) + ")")
		case "*":
			v := ec.eval(x.X)
			switch v.K {
			case KPtr:
				pt := v.Typ.Underlying().(*types.Pointer)
				return scalarVal(pt.Elem(), ec.loadLoc(v.Loc))
			case KRef:
				if ec.specDef {
					panic(vcErrorf("struct dereference in spec function"))
				}
				return vc.loadStruct(ec.heap, v.Typ, v.T)
			}
			panic(vcErrorf("dereference of %v", v.K))
		}
	case *EIte:
		c := ec.evalBool(x.C)
		a, b := ec.eval(x.A), ec.eval(x.B)
		return ec.iteVal(c, a, b)
	case *EBin:
		return ec.evalBin(x)
	case *EQuant:
		return ec.evalQuant(x)
	case *ECall:
		return ec.evalCall(x)
	}
	panic(vcErrorf("cannot evaluate %s", exprString(e)))
}

// coerceNil turns the untyped nil literal into the zero value of like's kind.
func coerceNil(v, like Val) Val {
	if v.K == KRef && v.Typ == nil && v.T == "0" {
		switch like.K {
		case KIface:
			return Val{K: KIface, T: "(mk-iface 0 0)", Typ: like.Typ}
		case KSlice:
			return Val{K: KSlice, T: "(mk-slice 0 0 0 0)", Typ: like.Typ}
		case KRef, KPtr:
			return Val{K: like.K, T: "0", Typ: like.Typ}
		}
	}
	return v
}

func (ec *evalCtx) iteVal(c string, a, b Val) Val {
	a, b = coerceNil(a, b), coerceNil(b, a)
	if a.K == KStruct {
		v := Val{K: KStruct, Typ: a.Typ}
		for i := range a.Fields {
			v.Fields = append(v.Fields, ec.iteVal(c, a.Fields[i], b.Fields[i]))
		}
		return v
	}
	r := a
	if a.K == KRef && a.Typ == nil {
		r = b
	}
	r.T = sIte(c, a.T, b.T)
	r.Loc = nil
	return r
}

func (ec *evalCtx) evalBin(x *EBin) Val {
	switch x.Op {
	case "&&":
		return boolVal(sAnd(ec.evalBool(x.L), ec.evalBool(x.R)))
	case "||":
		return boolVal(sOr(ec.evalBool(x.L), ec.evalBool(x.R)))
	case "==>":
		return boolVal(sImp(ec.evalBool(x.L), ec.evalBool(x.R)))
	case "<==>":
		return boolVal(sEq(ec.evalBool(x.L), ec.evalBool(x.R)))
	case "==", "!=":
		var t string
		if isNilExpr(x.R) {
			t = ec.isNil(ec.eval(x.L))
		} else if isNilExpr(x.L) {
			t = ec.isNil(ec.eval(x.R))
		} else {
			t = ec.eqVals(ec.eval(x.L), ec.eval(x.R))
		}
		if x.Op == "!=" {
			t = sNot(t)
		}
		return boolVal(t)
	case "<", "<=", ">", ">=":
		return boolVal("(" + x.Op + " " + ec.evalInt(x.L) + " " + ec.evalInt(x.R) + ")")
	case "+", "-", "*":
		return mathInt("(" + x.Op + " " + ec.evalInt(x.L) + " " + ec.evalInt(x.R) + ")")
	case "/":
		return mathInt("(div " + ec.evalInt(x.L) + " " + ec.evalInt(x.R) + ")")
	case "%":
		return mathInt("(mod " + ec.evalInt(x.L) + " " + ec.evalInt(x.R) + ")")
	}
	panic(vcErrorf("unsupported operator %s in contracts", x.Op))
}

func (ec *evalCtx) boundVar(name, typ string) (Val, string, string) {
	// returns the value, its SMT sort and a guard (range restriction)
	if s, ok := ec.vc.w.customSorts[typ]; ok {
		return Val{K: KArr, T: qsym(name), Sort: s}, s, "true"
	}
	t := ec.resolveType(typ)
	k := kindOf(t)
	if k == KStruct || k == KTuple {
		panic(vcErrorf("bound variable of struct type"))
	}
	v := Val{K: k, T: qsym(name), Typ: t}
	guard := "true"
	if typ == "nat" {
		guard = sLe("0", v.T)
	} else if typ != "int" && k == KInt {
		guard = rangeFact(v.T, t)
	}
	if k == KPtr {
		v.Loc = &Loc{Comp: ec.vc.cellComp(t.Underlying().(*types.Pointer).Elem()), Idx: v.T}
	}
	return v, kindSort(k), guard
}

func (ec *evalCtx) evalQuant(q *EQuant) Val {
	env := map[string]Val{}
	var binders []string
	var guards []string
	// Robust triggers: a trigger of the form s[k] (s a slice of scalars that
	// does not depend on the bound variables, k a bound int variable) is
	// re-parametrised over the absolute array index j = off(s)+k, so that the
	// pattern (select (select E arr) j) contains no arithmetic and matches
	// every access of that array whatever form its index has.
	absPat := map[string]string{} // exprString(trigger) -> pattern term
	absVar := map[string]bool{}
	absSlice := map[string]string{}
	// bound variables of other types may occur in the slice expression
	// (n.values[j] with n bound): they are bound first
	var intVars []QVar
	penv := map[string]Val{}
	for _, v := range q.Vars {
		if v.Type == "int" || v.Type == "nat" {
			intVars = append(intVars, v)
			continue
		}
		val, _, _ := ec.boundVar(v.Name, v.Type)
		penv[v.Name] = val
	}
	pec := ec.with(penv)
	for _, v := range q.Vars {
		if v.Type != "int" && v.Type != "nat" {
			continue
		}
		for _, tr := range q.Trig {
			for _, t := range tr {
				useOld := false
				if oc, isOld := t.(*ECall); isOld && oc.Fn == "old" && len(oc.Args) == 1 {
					// old(s[k]): the same access in the pre-state
					t = oc.Args[0]
					useOld = true
				}
				ix, ok := t.(*EIndex)
				if !ok {
					// s[k].f on a slice of structs
					if sel, isSel := t.(*ESel); isSel {
						ix, ok = sel.X.(*EIndex)
					}
					if !ok {
						continue
					}
				}
				id, ok := ix.I.(*EIdent)
				if !ok || id.Name != v.Name {
					continue
				}
				again := absVar[v.Name] // a further trigger on the same variable
				if mentionsAny(ix.X, intVars) {
					continue
				}
				var sv Val
				okEval := func() (ok bool) {
					defer func() {
						if r := recover(); r != nil {
							ok = false
						}
					}()
					if useOld {
						if ec.old == nil {
							return false
						}
						n := *pec
						n.heap = ec.old
						sv = n.eval(ix.X)
					} else {
						sv = pec.eval(ix.X)
					}
					return true
				}()
				if !okEval || sv.K != KSlice {
					continue
				}
				isStructElem := kindOf(sliceElem(sv.Typ)) == KStruct
				j := qsym(v.Name + "!abs")
				if again {
					// only if it indexes a slice with the very same offset term
					if absSlice[v.Name] != sv.T {
						continue
					}
				} else {
					absVar[v.Name] = true
					absSlice[v.Name] = sv.T
					k := "(- " + j + " (s-off " + sv.T + "))"
					env[v.Name] = Val{K: KInt, T: k, Typ: types.Typ[types.Int]}
					binders = append(binders, "("+j+" Int)")
					if v.Type == "nat" {
						guards = append(guards, sLe("0", k))
					}
				}
				key := exprString(t)
				if useOld {
					key = "old(" + key + ")"
				}
				if isStructElem {
					ec.vc.erefDecls()
					absPat[key] = sApp("erefid", "(s-arr "+sv.T+")", j)
				} else {
					comp := ec.vc.elemComp(sliceElem(sv.Typ))
					h := ec.hget(comp)
					if useOld {
						n := *ec
						n.heap = ec.old
						h = n.hget(comp)
					}
					absPat[key] = sSel(sSel(h, "(s-arr "+sv.T+")"), j)
				}
			}
		}
	}
	for _, v := range q.Vars {
		if absVar[v.Name] {
			continue
		}
		val, sort, guard := ec.boundVar(v.Name, v.Type)
		env[v.Name] = val
		binders = append(binders, "("+qsym(v.Name)+" "+sort+")")
		guards = append(guards, guard)
	}
	inner := ec.with(env)
	body := inner.evalBool(q.Body)
	g := sAnd(guards...)
	var pats string
	for _, tr := range q.Trig {
		var ts []string
		for _, t := range tr {
			if p, ok := absPat[exprString(t)]; ok {
				ts = append(ts, p)
				continue
			}
			ts = append(ts, inner.eval(t).T)
		}
		pats += " :pattern (" + strings.Join(ts, " ") + ")"
	}
	kw := "forall"
	if q.All {
		body = sImp(g, body)
	} else {
		kw = "exists"
		body = sAnd(g, body)
	}
	if pats != "" {
		body = "(! " + body + pats + ")"
	}
	return boolVal("(" + kw + " (" + strings.Join(binders, " ") + ") " + body + ")")
}

// mentionsAny: does expression e mention one of the bound variables?
func mentionsAny(e Expr, vars []QVar) bool {
	s := " " + exprString(e) + " "
	for _, v := range vars {
		for i := 0; i+len(v.Name) <= len(s); i++ {
			if s[i:i+len(v.Name)] == v.Name {
				before, after := byte(' '), byte(' ')
				if i > 0 {
					before = s[i-1]
				}
				if i+len(v.Name) < len(s) {
					after = s[i+len(v.Name)]
				}
				isId := func(c byte) bool {
					return c == '_' || (c >= '0' && c <= '9') || (c >= 'a' && c <= 'z') || (c >= 'A' && c <= 'Z')
				}
				if !isId(before) && !isId(after) {
					return true
				}
			}
		}
	}
	return false
}

func (ec *evalCtx) typeArg(e Expr) types.Type {
	return ec.resolveType(strings.ReplaceAll(exprString(e), " ", ""))
}

func (ec *evalCtx) evalCall(c *ECall) Val {
	vc := ec.vc
	arg := func(i int) Expr {
		if i >= len(c.Args) {
			panic(vcErrorf("%s: missing argument %d", c.Fn, i))
		}
		return c.Args[i]
	}
	switch c.Fn {
	case "len":
		v := ec.eval(arg(0))
		switch v.K {
		case KSlice:
			return mathInt("(s-len " + v.T + ")")
		case KStr:
			return mathInt(sApp("slen", v.T))
		case KRef:
			if _, ok := v.Typ.Underlying().(*types.Map); ok {
				_, _, ml, _ := vc.mapComps(v.Typ)
				return mathInt(sSel(ec.hget(ml), v.T))
			}
		}
		panic(vcErrorf("len of %v", v.K))
	case "cap":
		v := ec.eval(arg(0))
		return mathInt("(s-cap " + v.T + ")")
	case "elemarr":
		// the whole backing array of a slice of scalars, as a value
		v := ec.eval(arg(0))
		if v.K != KSlice || kindOf(sliceElem(v.Typ)) == KStruct {
			panic(vcErrorf("elemarr of %v", v.K))
		}
		comp := ec.vc.elemComp(sliceElem(v.Typ))
		_, es := splitArrSort(ec.vc.compSort[comp])
		return Val{K: KArr, T: sSel(ec.hget(comp), "(s-arr "+v.T+")"), Sort: es}
	case "arr":
		v := ec.eval(arg(0))
		return mathInt("(s-arr " + v.T + ")")
	case "off":
		v := ec.eval(arg(0))
		return mathInt("(s-off " + v.T + ")")
	case "old":
		if ec.old == nil {
			panic(vcErrorf("old() outside a two-state context"))
		}
		n := *ec
		n.heap = ec.old
		return n.eval(arg(0))
	case "fresh":
		v := ec.eval(arg(0))
		if ec.entryAlloc == "" {
			panic(vcErrorf("fresh() outside a function contract"))
		}
		// allocated during the call: at or above the allocation counter at
		// entry and below the counter now
		cur := ""
		if ec.heap != nil && !ec.specDef {
			ec.vc.compDecl(compAlloc, sortInt)
			cur = ec.vc.hget(ec.heap, compAlloc)
		}
		switch v.K {
		case KSlice:
			c := sLe(ec.entryAlloc, "(s-arr "+v.T+")")
			if cur != "" {
				c = sAnd(c, sLt("(s-arr "+v.T+")", cur))
			}
			return boolVal(sOr(c, sEq("(s-arr "+v.T+")", "0")))
		case KRef:
			c := sLe(ec.entryAlloc, v.T)
			if cur != "" {
				c = sAnd(c, sLt(v.T, cur))
			}
			return boolVal(c)
		}
		panic(vcErrorf("fresh of %v", v.K))
	case "$update":
		m := ec.eval(arg(0))
		if m.K != KArr {
			panic(vcErrorf("map update on a %v value", m.K))
		}
		k := ec.eval(arg(1))
		v := ec.eval(arg(2))
		r := m
		r.T = sSto(m.T, k.T, v.T)
		return r
	case "entry": // entry(x): value of parameter x at function entry (inside loop invariants)
		id, ok := arg(0).(*EIdent)
		if !ok {
			panic(vcErrorf("entry(): expected a parameter name"))
		}
		if v, ok := ec.env["entry$"+id.Name]; ok {
			return v
		}
		return ec.lookupIdent(id.Name)
	case "min":
		a, b := ec.evalInt(arg(0)), ec.evalInt(arg(1))
		return mathInt(sIte(sLe(a, b), a, b))
	case "max":
		a, b := ec.evalInt(arg(0)), ec.evalInt(arg(1))
		return mathInt(sIte(sLe(a, b), b, a))
	case "has": // has(m, k): key present in map
		m := ec.eval(arg(0))
		k := ec.eval(arg(1))
		mh, _, _, _ := vc.mapComps(m.Typ)
		return boolVal(sAnd(sNot(sEq(m.T, "0")), sSel(sSel(ec.hget(mh), m.T), k.T)))
	case "dyn": // dynamic type tag of an interface value
		v := ec.eval(arg(0))
		return mathInt("(i-tag " + v.T + ")")
	case "ptr": // ptr(e, *T): the integer e read as a pointer to T (ghost references)
		v := ec.eval(arg(0))
		t := ec.typeArg(arg(1))
		r := scalarVal(t, v.T)
		if r.K == KPtr {
			r.Loc = &Loc{Comp: vc.cellComp(t.Underlying().(*types.Pointer).Elem()), Idx: v.T}
		}
		return r
	case "lnil":
		return Val{K: KArr, T: "lnil", Sort: "Lv"}
	case "lcons":
		h, t := ec.eval(arg(0)), ec.eval(arg(1))
		return Val{K: KArr, T: sApp("lcons", h.T, t.T), Sort: "Lv"}
	case "lhd":
		return Val{K: KStr, T: sApp("lhd", ec.eval(arg(0)).T), Typ: types.Typ[types.String]}
	case "ltl":
		return Val{K: KArr, T: sApp("ltl", ec.eval(arg(0)).T), Sort: "Lv"}
	case "isnil":
		return boolVal("((_ is lnil) " + ec.eval(arg(0)).T + ")")
	case "addr": // addr(p): the address held by a pointer variable, as an integer
		v := ec.eval(arg(0))
		if v.T == "" {
			panic(vcErrorf("addr(): not a first-class pointer"))
		}
		return mathInt(v.T)
	case "payload": // payload(x): the value part of an interface value (a reference for pointer types)
		v := ec.eval(arg(0))
		return mathInt("(i-val " + v.T + ")")
	case "typetag": // typetag(T): dynamic type tag of T
		return mathInt(sNum(int64(vc.tagOf(ec.typeArg(arg(0))))))
	case "istype": // istype(x, T)
		v := ec.eval(arg(0))
		t := ec.typeArg(arg(1))
		return boolVal(sEq("(i-tag "+v.T+")", sNum(int64(vc.tagOf(t)))))
	case "as": // as(x, T): payload of interface x as a T
		v := ec.eval(arg(0))
		t := ec.typeArg(arg(1))
		r := scalarVal(t, "(i-val "+v.T+")")
		if r.K == KStr {
			r.T = sApp("unbox$Str", "(i-val "+v.T+")")
		}
		return r
	case "iface": // iface(p, T): interface value holding p with dynamic type T
		v := ec.eval(arg(0))
		t := ec.typeArg(arg(1))
		return Val{K: KIface, T: fmt.Sprintf("(mk-iface %d %s)", vc.tagOf(t), v.T)}
	case "held": // held(mu) : lock mode of mutex (0 none, 1 read, 2 write)
		v := ec.eval(arg(0))
		vc.compDecl(ghostComp("held"), arrSort(sortInt, sortInt))
		return mathInt(sSel(ec.hget(ghostComp("held")), v.T))
	case "str": // str(b, off, n): string made of n bytes of slice b starting at off
		b := ec.eval(arg(0))
		comp := vc.elemComp(sliceElem(b.Typ))
		return Val{K: KStr, Typ: types.Typ[types.String], T: sApp("str_of", sSel(ec.hget(comp), "(s-arr "+b.T+")"), sAdd("(s-off "+b.T+")", ec.evalInt(arg(1))), ec.evalInt(arg(2)))}
	case "int": // conversions are identities on mathematical integers
		return mathInt(ec.evalInt(arg(0)))
	}
	if sf, ok := vc.w.specs[c.Fn]; ok {
		return ec.applySpec(sf, c.Args)
	}
	panic(vcErrorf("unknown function %q in contract", c.Fn))
}

// ---------------------------------------------------------------- spec functions

func (ec *evalCtx) specParam(p Param) (Val, string) {
	if s, ok := ec.vc.w.customSorts[p.Type]; ok {
		return Val{K: KArr, T: qsym(p.Name), Sort: s}, s
	}
	t := ec.resolveType(p.Type)
	k := kindOf(t)
	v := Val{K: k, T: qsym(p.Name), Typ: t}
	if k == KPtr {
		v.Loc = &Loc{Comp: ec.vc.cellComp(t.Underlying().(*types.Pointer).Elem()), Idx: v.T}
	}
	if k == KStruct || k == KTuple {
		panic(vcErrorf("spec function parameter %s of struct type", p.Name))
	}
	return v, kindSort(k)
}

func (ec *evalCtx) specResultSort(sf *SpecFunc) (string, Kind, types.Type) {
	if s, ok := ec.vc.w.customSorts[sf.Result]; ok {
		return s, KArr, nil
	}
	t := ec.resolveType(sf.Result)
	return kindSort(kindOf(t)), kindOf(t), t
}

// defineSpec emits the definition of a spec function (once per VC).
func (vc *VC) defineSpec(sf *SpecFunc, pkg *types.Package) {
	if vc.specDone[sf.Name] {
		return
	}
	vc.specDone[sf.Name] = true
	sp := vc.w.specPkg[sf.Name]
	if sp != nil {
		pkg = sp
	}
	var used []string
	ec := &evalCtx{vc: vc, env: map[string]Val{}, pkg: pkg, specDef: true, specUsed: &used}
	var formals []string
	for _, p := range sf.Params {
		v, sort := ec.specParam(p)
		ec.env[p.Name] = v
		formals = append(formals, "("+qsym(p.Name)+" "+sort+")")
	}
	rsort, _, _ := ec.specResultSort(sf)
	name := qsym("spec$" + sf.Name)
	if sf.Uninterp {
		var sorts []string
		for _, p := range sf.Params {
			_, s := ec.specParam(p)
			sorts = append(sorts, s)
		}
		vc.specComps[sf.Name] = nil
		vc.declFun(name, sorts, rsort)
		return
	}
	// recursion: pre-register with the components determined by a first pass
	rec := specIsRecursive(sf)
	if rec {
		// first pass to find the heap components (the recursive call sees an empty list)
		vc.specComps[sf.Name] = nil
		func() {
			defer func() { recover() }()
			ec.eval(sf.Body)
		}()
		vc.specComps[sf.Name] = append([]string{}, used...)
		used = used[:0]
	}
	body := ec.eval(sf.Body)
	if !rec {
		vc.specComps[sf.Name] = append([]string{}, used...)
	}
	var hf []string
	for _, c := range vc.specComps[sf.Name] {
		hf = append(hf, "("+qsym("H!"+c)+" "+vc.compSort[c]+")")
	}
	all := strings.Join(append(hf, formals...), " ")
	kw := "define-fun"
	if rec {
		kw = "define-fun-rec"
	}
	vc.decl("spec:"+sf.Name, fmt.Sprintf("(%s %s (%s) %s %s)", kw, name, all, rsort, body.T))
}

func specIsRecursive(sf *SpecFunc) bool {
	found := false
	var walk func(e Expr)
	walk = func(e Expr) {
		switch x := e.(type) {
		case *ECall:
			if x.Fn == sf.Name {
				found = true
			}
			for _, a := range x.Args {
				walk(a)
			}
		case *EBin:
			walk(x.L)
			walk(x.R)
		case *EUn:
			walk(x.X)
		case *EIndex:
			walk(x.X)
			walk(x.I)
		case *ESlice:
			walk(x.X)
			if x.Lo != nil {
				walk(x.Lo)
			}
			if x.Hi != nil {
				walk(x.Hi)
			}
		case *ESel:
			walk(x.X)
		case *EQuant:
			walk(x.Body)
		case *EIte:
			walk(x.C)
			walk(x.A)
			walk(x.B)
		}
	}
	walk(sf.Body)
	return found
}

func (ec *evalCtx) applySpec(sf *SpecFunc, args []Expr) Val {
	vc := ec.vc
	if len(args) != len(sf.Params) {
		panic(vcErrorf("spec %s: expected %d arguments, got %d", sf.Name, len(sf.Params), len(args)))
	}
	vc.defineSpec(sf, ec.pkg)
	var ts []string
	for _, c := range vc.specComps[sf.Name] {
		ts = append(ts, ec.hget(c))
	}
	for _, a := range args {
		v := ec.eval(a)
		if v.K == KStruct || (v.K == KPtr && v.T == "") {
			panic(vcErrorf("spec %s: unsupported argument kind", sf.Name))
		}
		ts = append(ts, v.T)
	}
	sub := &evalCtx{vc: vc, pkg: ec.pkg}
	if sp := vc.w.specPkg[sf.Name]; sp != nil {
		sub.pkg = sp
	}
	rsort, rk, rt := sub.specResultSort(sf)
	return Val{K: rk, T: sApp(qsym("spec$"+sf.Name), ts...), Typ: rt, Sort: rsort}
}
