#!/bin/bash
# runs the quick check of every claimed property; prints one summary line each
cd /verif
for p in $(python3 -c "import json;print(' '.join(sorted(json.load(open('claims.json')))))"); do
  ./check $p --tier ${1:-quick} 2>&1 | grep -v KNOWN-FINDING | sed 's/replay=[^ ]* //' | cut -c1-240 | tail -${2:-1}
done
