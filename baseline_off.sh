#!/bin/bash
# runs the repository's own suite with the verif guard OFF (no -tags verif)
export GOFLAGS=-mod=mod GOPROXY=off GOSUMDB=off GOTOOLCHAIN=local
cd /repo && go test -vet=off -count=1 -timeout 25m -json ./...
