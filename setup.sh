#!/bin/bash
# builds the govc binary offline
set -e
export GOFLAGS=-mod=mod GOPROXY=off GOSUMDB=off GOTOOLCHAIN=local
cd /verif/govc
mkdir -p /verif/bin
go build -o /verif/bin/govc .
