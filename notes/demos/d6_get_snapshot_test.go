package topic

import "testing"

// Demonstration for finding D6 (C05): the slice returned by Get must be a
// snapshot - a later operation on the tree must not alter it.
func TestD6GetReturnsSnapshot(t *testing.T) {
	tree := NewStandardTree()
	tree.Add("x", 1)
	tree.Add("x", 2)
	tree.Add("x", 3)
	got := tree.Get("x")
	tree.Remove("x", 1)
	if len(got) != 3 || got[0] != 1 || got[1] != 2 || got[2] != 3 {
		t.Fatalf("result of Get changed after a later Remove: %v", got)
	}
}
