package session

import (
	"testing"

	"github.com/256dpi/gomqtt/packet"
)

// Demonstration for finding D14 (C15): All() must list the stored packets in
// the order in which they were first saved (the order of their original
// transmission), also after a PUBLISH was replaced by its PUBREL and after
// deletions.
func TestD14AllKeepsTransmissionOrder(t *testing.T) {
	for round := 0; round < 50; round++ {
		s := NewPacketStore()
		for id := 1; id <= 8; id++ {
			p := packet.NewPublish()
			p.ID = packet.ID(id * 7 % 11)
			s.Save(p)
		}
		rel := packet.NewPubrel()
		rel.ID = 3
		s.Save(rel) // replaces the publish saved fifth (5*7%11 == 2? no: ids are 7,3,10,6,2,9,5,1)
		s.Delete(10)
		want := []packet.ID{7, 3, 6, 2, 9, 5, 1}
		all := s.All()
		if len(all) != len(want) {
			t.Fatalf("len %d", len(all))
		}
		for i, pkt := range all {
			id, _ := packet.GetID(pkt)
			if id != want[i] {
				t.Fatalf("round %d: position %d holds id %d, want %d", round, i, id, want[i])
			}
		}
	}
}
