package broker

// Demonstration of defect D16 (property C14), found by the obligation
// broker.(*Engine).Close#pre:tomb.v2.(*Tomb).Wait.started:1: an Engine
// that only ever handled connections through Handle (Accept was never called)
// blocks forever in Close: the tomb has no goroutine, so it never becomes
// dead and Wait never returns - a caller shutting the broker down hangs.
//
// Run: copy into /repo/broker and `go test -run TestD16 ./broker`.
// Fails (times out after 2 s) before the fix commit, passes after it.

import (
	"testing"
	"time"
)

func TestD16EngineCloseWithoutAcceptReturns(t *testing.T) {
	engine := NewEngine(NewMemoryBackend())
	done := make(chan struct{})
	go func() {
		engine.Close()
		close(done)
	}()
	select {
	case <-done:
	case <-time.After(2 * time.Second):
		t.Fatal("Engine.Close() did not return: no acceptor was ever started, Wait blocks forever")
	}
}
