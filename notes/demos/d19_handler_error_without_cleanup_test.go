package client

import (
	"errors"
	"testing"
	"time"

	"github.com/256dpi/gomqtt/client/future"
	"github.com/256dpi/gomqtt/packet"
	"github.com/256dpi/gomqtt/session"
	"github.com/256dpi/gomqtt/transport/flow"

	"github.com/stretchr/testify/assert"
)

// D19: an acknowledgement handler that fails without going through die()
// ends the processor without any cleanup: the connection stays open, the
// state stays "connected", the callback is never told and the other
// unresolved futures are never cancelled.

// a SUBACK with a failure code under ValidateSubs
func TestD19FailedSubscriptionCleansUp(t *testing.T) {
	publish := packet.NewPublish()
	publish.Message.Topic = "test"
	publish.Message.Payload = []byte("test")
	publish.Message.QOS = 1
	publish.ID = 1

	subscribe := packet.NewSubscribe()
	subscribe.Subscriptions = []packet.Subscription{{Topic: "test", QOS: 0}}
	subscribe.ID = 2

	suback := packet.NewSuback()
	suback.ReturnCodes = []packet.QOS{packet.QOSFailure}
	suback.ID = 2

	broker := flow.New().
		Receive(connectPacket()).
		Send(connackPacket()).
		Receive(publish).
		Receive(subscribe).
		Send(suback).
		Close()

	done, port := fakeBroker(t, broker)

	reported := make(chan error, 1)

	c := New()
	c.Callback = func(msg *packet.Message, err error) error {
		if err != nil {
			reported <- err
		}
		return nil
	}

	config := NewConfig("tcp://localhost:" + port)
	config.ValidateSubs = true

	connectFuture, err := c.Connect(config)
	assert.NoError(t, err)
	assert.NoError(t, connectFuture.Wait(1*time.Second))

	publishFuture, err := c.Publish("test", []byte("test"), 1, false)
	assert.NoError(t, err)

	subscribeFuture, err := c.Subscribe("test", 0)
	assert.NoError(t, err)
	assert.Equal(t, future.ErrCanceled, subscribeFuture.Wait(1*time.Second))

	// the processor has ended: the client must have cleaned up
	select {
	case err := <-reported:
		assert.Equal(t, ErrFailedSubscription, err)
	case <-time.After(1 * time.Second):
		t.Errorf("the callback was not told that the client has ended")
	}
	assert.Equal(t, future.ErrCanceled, publishFuture.Wait(1*time.Second), "the unresolved publish future is not cancelled")
	_, err = c.Publish("test", []byte("test"), 0, false)
	assert.Equal(t, ErrClientNotConnected, err, "the client still claims to be connected")

	safeReceive(done)
}

type failingDeleteSession struct {
	*session.MemorySession
}

func (s *failingDeleteSession) DeletePacket(session.Direction, packet.ID) error {
	return errors.New("delete failed")
}

// a failing Session.DeletePacket in the PUBACK handler
func TestD19FailedDeleteCleansUp(t *testing.T) {
	publish := packet.NewPublish()
	publish.Message.Topic = "test"
	publish.Message.Payload = []byte("test")
	publish.Message.QOS = 1
	publish.ID = 1

	publish2 := packet.NewPublish()
	publish2.Message.Topic = "test"
	publish2.Message.Payload = []byte("test")
	publish2.Message.QOS = 1
	publish2.ID = 2

	puback := packet.NewPuback()
	puback.ID = 1

	broker := flow.New().
		Receive(connectPacket()).
		Send(connackPacket()).
		Receive(publish).
		Receive(publish2).
		Send(puback).
		Close()

	done, port := fakeBroker(t, broker)

	reported := make(chan error, 1)

	c := New()
	c.Session = &failingDeleteSession{session.NewMemorySession()}
	c.Callback = func(msg *packet.Message, err error) error {
		if err != nil {
			reported <- err
		}
		return nil
	}

	connectFuture, err := c.Connect(NewConfig("tcp://localhost:" + port))
	assert.NoError(t, err)
	assert.NoError(t, connectFuture.Wait(1*time.Second))

	_, err = c.Publish("test", []byte("test"), 1, false)
	assert.NoError(t, err)
	publishFuture2, err := c.Publish("test", []byte("test"), 1, false)
	assert.NoError(t, err)

	select {
	case err := <-reported:
		assert.EqualError(t, err, "delete failed")
	case <-time.After(1 * time.Second):
		t.Errorf("the callback was not told that the client has ended")
	}
	assert.Equal(t, future.ErrCanceled, publishFuture2.Wait(1*time.Second), "the unresolved publish future is not cancelled")

	safeReceive(done)
}
