package client

// Demonstrations for findings D10 and D11 (C09).
// D10: the accessors of a connect/subscribe future panic when the future was
//      cancelled without a result (connection lost before the acknowledgement).
// D11: when the CONNECT packet cannot be sent, Connect returns an error but
//      leaves the client in a state in which Close() waits forever for a
//      processor goroutine that was never started.

import (
	"errors"
	"net"
	"testing"
	"time"

	"github.com/256dpi/gomqtt/client/future"
	"github.com/256dpi/gomqtt/packet"
	"github.com/256dpi/gomqtt/transport"
)

func TestD10AccessorsOfCancelledFutures(t *testing.T) {
	cf := &connectFuture{future.New()}
	cf.Cancel(nil)
	sf := &subscribeFuture{future.New()}
	sf.Cancel(nil)
	defer func() {
		if r := recover(); r != nil {
			t.Fatalf("accessor panicked: %v", r)
		}
	}()
	_ = cf.SessionPresent()
	_ = cf.ReturnCode()
	_ = sf.ReturnCodes()
}

type d11Conn struct{}

func (d11Conn) Send(packet.Generic, bool) error    { return errors.New("write failed") }
func (d11Conn) Receive() (packet.Generic, error)   { select {} }
func (d11Conn) Close() error                       { return nil }
func (d11Conn) SetReadLimit(int64)                 {}
func (d11Conn) SetReadTimeout(time.Duration)       {}
func (d11Conn) SetMaxWriteDelay(time.Duration)     {}
func (d11Conn) LocalAddr() net.Addr                { return nil }
func (d11Conn) RemoteAddr() net.Addr               { return nil }

type d11Dialer struct{}

func (d11Dialer) Dial(string) (transport.Conn, error) { return d11Conn{}, nil }

func TestD11CloseAfterFailedConnectReturns(t *testing.T) {
	c := New()
	cfg := NewConfig("tcp://localhost:1")
	cfg.Dialer = d11Dialer{}
	_, err := c.Connect(cfg)
	if err == nil {
		t.Fatal("expected the connect to fail")
	}
	done := make(chan struct{})
	go func() {
		_ = c.Close()
		close(done)
	}()
	select {
	case <-done:
	case <-time.After(2 * time.Second):
		t.Fatal("Close() hangs after a failed Connect")
	}
}
