package broker

// Demonstration of defect D17 (property C14), found by the obligation
// broker.(*Engine).Close#assert:not-holding-while-waiting: Engine.Close held
// the engine's mutex while it waited for the acceptor goroutines; an acceptor
// that has just accepted a connection calls Handle, which needs that mutex:
// Close waits for the acceptor, the acceptor waits for Close - the shutdown
// and the acceptor goroutine block forever. The test pins the interleaving:
// the fake server hands out its connection only once Close holds the mutex.
//
// Run: copy into /repo/broker and `go test -run TestD17 ./broker`.
// Fails (times out) before the fix commit, passes after it.

import (
	"errors"
	"net"
	"testing"
	"time"

	"github.com/256dpi/gomqtt/transport"
)

type d17Server struct {
	release chan struct{}
	conn    transport.Conn
	served  bool
}

func (s *d17Server) Accept() (transport.Conn, error) {
	if s.served {
		return nil, errors.New("server closed")
	}
	<-s.release
	s.served = true
	return s.conn, nil
}

func (s *d17Server) Close() error   { return nil }
func (s *d17Server) Addr() net.Addr { return nil }

func TestD17EngineCloseWhileConnectionIsAccepted(t *testing.T) {
	a, b := net.Pipe()
	defer b.Close()

	engine := NewEngine(NewMemoryBackend())
	server := &d17Server{release: make(chan struct{}), conn: transport.NewNetConn(a)}
	engine.Accept(server)

	done := make(chan struct{})
	go func() {
		engine.Close()
		close(done)
	}()

	// wait until Close is under way (it holds the mutex or has finished its
	// critical section), then let the acceptor obtain its connection
	deadline := time.Now().Add(2 * time.Second)
	for time.Now().Before(deadline) {
		if !engine.tomb.Alive() {
			break
		}
		time.Sleep(time.Millisecond)
	}
	close(server.release)

	select {
	case <-done:
	case <-time.After(3 * time.Second):
		t.Fatal("Engine.Close() did not return: it waits for the acceptor while holding the mutex the acceptor's Handle needs")
	}
}
