package broker

// Demonstration of defect D18 (properties C08 / C06), found by the obligation
// broker.(*MemoryBackend).Publish#inv:loop2.offer-before-giving-up: for a
// session whose client is online, Publish waited in
//
//	select { case queue <- msg: case <-sess.activeClient.Closing(): }
//
// When that client is already closing (its tomb is dying, Terminate has not
// run yet) both cases are ready although the queue has room, and Go picks one
// at random: about every second QoS 1 message published for a *persistent*
// session in that window is silently dropped instead of being kept in the
// session's stored queue for the next connection.
//
// The window is held open by a backend Logger that blocks the MessagePublished
// event of the subscriber's will (logged by cleanup after the tomb died and
// before Terminate). 40 messages are published into it; all 40 must be
// delivered after the subscriber reconnects (the chance that the unfixed code
// passes is 2^-40).
//
// Run: copy into /repo/broker and `go test -run TestD18 ./broker`.

import (
	"fmt"
	"net"
	"testing"
	"time"

	"github.com/256dpi/gomqtt/packet"
	"github.com/256dpi/gomqtt/transport"
)

func d18Connect(t *testing.T, engine *Engine, id string, clean bool, will *packet.Message) transport.Conn {
	a, b := net.Pipe()
	if !engine.Handle(transport.NewNetConn(a)) {
		t.Fatal("engine refused the connection")
	}
	conn := transport.NewNetConn(b)
	connect := packet.NewConnect()
	connect.ClientID = id
	connect.CleanSession = clean
	connect.Will = will
	if err := conn.Send(connect, false); err != nil {
		t.Fatal(err)
	}
	pkt, err := conn.Receive()
	if err != nil {
		t.Fatal(err)
	}
	if ack, ok := pkt.(*packet.Connack); !ok || ack.ReturnCode != packet.ConnectionAccepted {
		t.Fatalf("unexpected reply to CONNECT: %v", pkt)
	}
	return conn
}

func TestD18PublishForClosingPersistentClientIsKept(t *testing.T) {
	const n = 40

	backend := NewMemoryBackend()
	backend.SessionQueueSize = 2 * n
	hold := make(chan struct{})
	held := make(chan struct{}, 1)
	backend.Logger = func(e LogEvent, c *Client, _ packet.Generic, _ *packet.Message, _ error) {
		if e == MessagePublished && c != nil && c.ID() == "sub" {
			select {
			case held <- struct{}{}:
				<-hold // the client is dying, Terminate has not run yet
			default:
			}
		}
	}
	engine := NewEngine(backend)

	// persistent subscriber
	sub := d18Connect(t, engine, "sub", false, &packet.Message{Topic: "d18/will", Payload: []byte("gone")})
	subscribe := packet.NewSubscribe()
	subscribe.ID = 1
	subscribe.Subscriptions = []packet.Subscription{{Topic: "d18", QOS: 1}}
	if err := sub.Send(subscribe, false); err != nil {
		t.Fatal(err)
	}
	if _, err := sub.Receive(); err != nil {
		t.Fatal(err)
	}

	// the subscriber's connection breaks; its broker-side client starts dying
	_ = sub.Close()
	select {
	case <-held:
	case <-time.After(3 * time.Second):
		t.Fatal("subscriber's connection loss was not noticed")
	}

	// publish into the window
	pub := d18Connect(t, engine, "pub", true, nil)
	for i := 0; i < n; i++ {
		publish := packet.NewPublish()
		publish.ID = packet.ID(i + 1)
		publish.Message = packet.Message{Topic: "d18", Payload: []byte(fmt.Sprintf("m%02d", i)), QOS: 1}
		if err := pub.Send(publish, false); err != nil {
			t.Fatal(err)
		}
		if _, err := pub.Receive(); err != nil { // PUBACK: the broker accepted it
			t.Fatal(err)
		}
	}
	close(hold)

	// the subscriber comes back and must get all of them
	time.Sleep(100 * time.Millisecond)
	sub2 := d18Connect(t, engine, "sub", false, nil)
	got := 0
	sub2.SetReadTimeout(2 * time.Second)
	for got < n {
		pkt, err := sub2.Receive()
		if err != nil {
			break
		}
		if p, ok := pkt.(*packet.Publish); ok {
			got++
			ack := packet.NewPuback()
			ack.ID = p.ID
			_ = sub2.Send(ack, false)
		}
	}
	if got != n {
		t.Fatalf("persistent subscriber received %d of %d QoS 1 messages accepted while its old connection was closing", got, n)
	}
}
