package client

// Demonstrations for the open findings D12 and D13 (C10). Both tests FAIL on
// the current tree (the defects cannot be repaired without breaking the
// unedited suite, see /verif/known_findings.json).
// D12: a PUBREL for a packet id the client does not know is ignored instead
//      of being answered with PUBCOMP, so the sender's handshake never ends.
// D13: PUBCOMP is written before the stored QoS 2 publish is released; when
//      that write fails the message stays stored and the PUBREL retransmitted
//      after the session is resumed delivers it to the application again.

import (
	"errors"
	"net"
	"sync/atomic"
	"testing"
	"time"

	"github.com/256dpi/gomqtt/packet"
	"github.com/256dpi/gomqtt/session"
	"github.com/256dpi/gomqtt/transport"
)

type d12Conn struct {
	in       chan packet.Generic
	out      chan packet.Generic
	closed   chan struct{}
	failComp bool
}

func newD12Conn(failComp bool) *d12Conn {
	return &d12Conn{in: make(chan packet.Generic, 16), out: make(chan packet.Generic, 16), closed: make(chan struct{}), failComp: failComp}
}
func (c *d12Conn) Send(pkt packet.Generic, _ bool) error {
	if _, ok := pkt.(*packet.Pubcomp); ok && c.failComp {
		return errors.New("write failed")
	}
	select {
	case c.out <- pkt:
		return nil
	case <-c.closed:
		return errors.New("closed")
	}
}
func (c *d12Conn) Receive() (packet.Generic, error) {
	select {
	case p := <-c.in:
		return p, nil
	case <-c.closed:
		return nil, errors.New("closed")
	}
}
func (c *d12Conn) Close() error {
	select {
	case <-c.closed:
	default:
		close(c.closed)
	}
	return nil
}
func (c *d12Conn) SetReadLimit(int64)             {}
func (c *d12Conn) SetReadTimeout(time.Duration)   {}
func (c *d12Conn) SetMaxWriteDelay(time.Duration) {}
func (c *d12Conn) LocalAddr() net.Addr            { return nil }
func (c *d12Conn) RemoteAddr() net.Addr           { return nil }

type d12Dialer struct{ conn *d12Conn }

func (d d12Dialer) Dial(string) (transport.Conn, error) { return d.conn, nil }

func d12Expect(t *testing.T, c *d12Conn, typ packet.Type) packet.Generic {
	select {
	case p := <-c.out:
		if p.Type() != typ {
			t.Fatalf("expected %v, got %v", typ, p)
		}
		return p
	case <-time.After(time.Second):
		t.Fatalf("timeout waiting for %v", typ)
		return nil
	}
}

func d12Connect(t *testing.T, c *Client, conn *d12Conn) {
	cfg := NewConfigWithClientID("tcp://localhost:1", "d12")
	cfg.CleanSession = false
	cfg.Dialer = d12Dialer{conn}
	cfg.KeepAlive = "0s"
	if _, err := c.Connect(cfg); err != nil {
		t.Fatal(err)
	}
	d12Expect(t, conn, packet.CONNECT)
	conn.in <- packet.NewConnack()
}

func TestD12UnknownPubrelIsAnswered(t *testing.T) {
	conn := newD12Conn(false)
	c := New()
	d12Connect(t, c, conn)
	rel := packet.NewPubrel()
	rel.ID = 9
	conn.in <- rel
	d12Expect(t, conn, packet.PUBCOMP)
	_ = c.Close()
}

func TestD13PubcompWriteFailureDoesNotRedeliver(t *testing.T) {
	sess := session.NewMemorySession()
	var delivered int32

	// first connection: the PUBCOMP write fails
	conn1 := newD12Conn(true)
	c1 := New()
	c1.Session = sess
	c1.Callback = func(msg *packet.Message, err error) error {
		if msg != nil {
			atomic.AddInt32(&delivered, 1)
		}
		return nil
	}
	d12Connect(t, c1, conn1)
	pub := packet.NewPublish()
	pub.ID = 7
	pub.Message = packet.Message{Topic: "t", QOS: 2, Payload: []byte("x")}
	conn1.in <- pub
	d12Expect(t, conn1, packet.PUBREC)
	rel := packet.NewPubrel()
	rel.ID = 7
	conn1.in <- rel
	time.Sleep(100 * time.Millisecond)
	_ = c1.Close()

	// second connection resumes the session, the broker retransmits the PUBREL
	conn2 := newD12Conn(false)
	c2 := New()
	c2.Session = sess
	c2.Callback = c1.Callback
	d12Connect(t, c2, conn2)
	rel2 := packet.NewPubrel()
	rel2.ID = 7
	conn2.in <- rel2
	time.Sleep(100 * time.Millisecond)
	_ = c2.Close()

	if n := atomic.LoadInt32(&delivered); n != 1 {
		t.Fatalf("QoS 2 message delivered to the application %d times, want exactly once", n)
	}
}
