package topic

// Demonstration of defect D15 (property C04), found by the obligation
// topic.(*Tree).search#ensures:sound: Search("a/+") returns what is stored
// under the name "a", although under MQTT 3.1.1 section 4.7 '+' stands for
// exactly one level, so the filter "a/+" does not match the name "a"; the
// other direction (Match of the name "a" against the stored filter "a/+")
// correctly finds nothing, so the two directions disagree.
//
// Run: copy into /repo/topic and `go test -run TestD15 ./topic`.
// Fails before the fix commit, passes after it.

import "testing"

func TestD15SearchPlusDoesNotMatchParentLevel(t *testing.T) {
	names := NewStandardTree()
	names.Add("a", 1)
	names.Add("a/b", 2)
	got := names.Search("a/+")
	if len(got) != 1 || got[0] != 2 {
		t.Fatalf("Search(a/+) = %v, want [2] (a/+ does not match the name a)", got)
	}
	if v := names.SearchFirst("a/+"); v != 2 {
		t.Fatalf("SearchFirst(a/+) = %v, want 2", v)
	}

	filters := NewStandardTree()
	filters.Add("a/+", 1)
	if got := filters.Match("a"); len(got) != 0 {
		t.Fatalf("Match(a) = %v, want []", got)
	}
}
