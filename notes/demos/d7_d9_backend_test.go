package broker

import (
	"testing"

	"github.com/256dpi/gomqtt/packet"
)

// Demonstration for finding D7 (C06): a SUBSCRIBE carrying several filters
// must grant each filter its own QoS.
func TestD7SubscribeStoresEachFilterWithItsOwnQOS(t *testing.T) {
	m := NewMemoryBackend()
	c := &Client{}
	sess, _, err := m.Setup(c, "d7", true)
	if err != nil {
		t.Fatal(err)
	}
	c.session = sess
	err = m.Subscribe(c, []packet.Subscription{{Topic: "a", QOS: 0}, {Topic: "b", QOS: 2}}, nil)
	if err != nil {
		t.Fatal(err)
	}
	sub := sess.(*memorySession).lookupSubscription("a")
	if sub == nil || sub.Topic != "a" || sub.QOS != 0 {
		t.Fatalf("filter a was granted %+v, want {a 0}", sub)
	}
}

// Demonstration for finding D9 (C14): Terminate is called for every client
// whose state reached "connected", also when Setup failed and the client has
// no session; it must not panic.
func TestD9TerminateWithoutSession(t *testing.T) {
	m := NewMemoryBackend()
	c := &Client{}
	defer func() {
		if r := recover(); r != nil {
			t.Fatalf("Terminate panicked: %v", r)
		}
	}()
	_ = m.Terminate(c)
}
