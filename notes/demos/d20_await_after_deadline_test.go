package future

import (
	"testing"
	"time"

	"github.com/stretchr/testify/assert"
)

// D20: Store.Await hands the rest of its deadline to Future.Wait, which takes
// a non-positive duration as "no timeout": once the deadline has passed
// between two looks at the clock, Await waits without bound on a future
// that is never resolved. A tiny timeout pins the window.
func TestD20AwaitReturnsAfterItsTimeout(t *testing.T) {
	s := NewStore()
	s.Put(1, New())

	done := make(chan error, 1)
	go func() {
		done <- s.Await(time.Nanosecond)
	}()

	select {
	case err := <-done:
		assert.Equal(t, ErrTimeout, err)
	case <-time.After(2 * time.Second):
		t.Fatalf("Await(1ns) has not returned after 2s")
	}
}
