package broker

// Demonstration for finding D8 (C07): with "send PUBCOMP, then delete the
// stored PUBLISH" a failure of the PUBCOMP write leaves the QoS 2 message in
// the session, and the PUBREL retransmitted after the session is resumed hands
// it to the backend a second time.

import (
	"errors"
	"net"
	"sync/atomic"
	"testing"
	"time"

	"github.com/256dpi/gomqtt/packet"
)

type d8Conn struct {
	in       chan packet.Generic
	out      chan packet.Generic
	closed   chan struct{}
	failComp bool
}

func newD8Conn(failComp bool) *d8Conn {
	return &d8Conn{in: make(chan packet.Generic, 16), out: make(chan packet.Generic, 16), closed: make(chan struct{}), failComp: failComp}
}
func (c *d8Conn) Send(pkt packet.Generic, _ bool) error {
	if _, ok := pkt.(*packet.Pubcomp); ok && c.failComp {
		return errors.New("write failed")
	}
	select {
	case c.out <- pkt:
		return nil
	case <-c.closed:
		return errors.New("closed")
	}
}
func (c *d8Conn) Receive() (packet.Generic, error) {
	select {
	case p := <-c.in:
		return p, nil
	case <-c.closed:
		return nil, errors.New("closed")
	}
}
func (c *d8Conn) Close() error {
	select {
	case <-c.closed:
	default:
		close(c.closed)
	}
	return nil
}
func (c *d8Conn) SetReadLimit(int64)             {}
func (c *d8Conn) SetReadTimeout(time.Duration)   {}
func (c *d8Conn) SetMaxWriteDelay(time.Duration) {}
func (c *d8Conn) LocalAddr() net.Addr            { return nil }
func (c *d8Conn) RemoteAddr() net.Addr           { return nil }

type d8Backend struct {
	*MemoryBackend
	published int32
}

func (b *d8Backend) Publish(c *Client, msg *packet.Message, ack Ack) error {
	if msg.Topic == "d8" {
		atomic.AddInt32(&b.published, 1)
	}
	return b.MemoryBackend.Publish(c, msg, ack)
}

func d8Expect(t *testing.T, c *d8Conn, typ packet.Type) packet.Generic {
	select {
	case p := <-c.out:
		if p.Type() != typ {
			t.Fatalf("expected %v, got %v", typ, p)
		}
		return p
	case <-time.After(2 * time.Second):
		t.Fatalf("timeout waiting for %v", typ)
		return nil
	}
}

func TestD8PubcompWriteFailureDoesNotRepublish(t *testing.T) {
	b := &d8Backend{MemoryBackend: NewMemoryBackend()}

	connect := packet.NewConnect()
	connect.ClientID = "p"
	connect.CleanSession = false

	// first connection: the PUBCOMP write fails
	c1 := newD8Conn(true)
	cl1 := NewClient(b, c1)
	c1.in <- connect
	d8Expect(t, c1, packet.CONNACK)
	pub := packet.NewPublish()
	pub.ID = 7
	pub.Message = packet.Message{Topic: "d8", QOS: 2, Payload: []byte("x")}
	c1.in <- pub
	d8Expect(t, c1, packet.PUBREC)
	rel := packet.NewPubrel()
	rel.ID = 7
	c1.in <- rel
	<-cl1.Closed()

	// second connection resumes the session and retransmits the PUBREL
	c2 := newD8Conn(false)
	cl2 := NewClient(b, c2)
	c2.in <- connect
	d8Expect(t, c2, packet.CONNACK)
	rel2 := packet.NewPubrel()
	rel2.ID = 7
	c2.in <- rel2
	d8Expect(t, c2, packet.PUBCOMP)
	cl2.Close()
	<-cl2.Closed()

	if n := atomic.LoadInt32(&b.published); n != 1 {
		t.Fatalf("QoS 2 message handed to the backend %d times, want exactly once", n)
	}
}
